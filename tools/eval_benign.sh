#!/bin/bash
# tools/eval_benign.sh <dir-with-rK/patch.diff ...>: run every quick check against behaviour-preserving
# changes; each line should say "missed" (= no alarm). Anything DETECTED or TROUBLE is a false alarm to look at.
cd /verif
for d in "$@"; do
  p=$d/patch.diff
  [ -f $p ] || continue
  echo "== $d"
  WALL=${WALL:-8} MIN_S=8 tools/try_mutant.sh $p C01 C02 C03 C04 C05 C06 C07 C08 C09 C10 C11 C12 C13 C14 C15 C17 C18 C19 C20 2>&1 | grep -v "^missed" | cut -c1-400
done
