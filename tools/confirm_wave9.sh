#!/bin/bash
# tools/confirm_wave8.sh <agent h1..h4> <property> <seeded number>
# wave 8 layout: /tmp/wt/<agent>/out/<property>/{patch.diff,demo_*_test.go,meta.json}
a=$1; p=$2; n=$3
d=/tmp/wt/$a/out/$p
[ -f $d/patch.diff ] || { echo "no patch in $d"; exit 2; }
python3 - $d <<'PY'
import json,sys
d=sys.argv[1]
try: m=json.load(open(d+'/meta.json'))
except Exception as e: m={'summary':'(meta.json unreadable)','needs':''}
open(d+'/README.md','w').write('Change: %s\n\nNeeds, in order to manifest: %s\n\nWhat the author ran: %s\n'%(m.get('summary',''),m.get('needs',''),m.get('ran','')))
PY
mv $d/meta.json $d/agent-meta.json.txt 2>/dev/null
ln -sfn out /tmp/wt/$a/OUT
VW=/tmp/wt/verify-$a-$p python3 /verif/tools/verify_seeded.py /tmp/wt/$a $p s$n-$p-${a}w9 $p
git -C /repo worktree remove --force /tmp/wt/verify-$a-$p >/dev/null 2>&1
