#!/usr/bin/env python3
"""Confirm a sub-agent's mutant in a scratch worktree and file it under /verif/seeded/<id>/.
usage: verify_seeded.py <agent-dir e.g. /tmp/wt/a3> <mK> <seeded-id> <property>"""
import sys,os,subprocess,shutil,json,re,glob
agent,mk,sid,prop=sys.argv[1:5]
src=f'{agent}/OUT/{mk}'
W=os.environ.get('VW','/tmp/wt/verify')
env=dict(os.environ,GOFLAGS='-mod=mod',GOPROXY='off',GOSUMDB='off')
def sh(cmd,cwd=W,timeout=600):
    p=subprocess.run(cmd,shell=True,cwd=cwd,capture_output=True,text=True,env=env,timeout=timeout)
    return p.returncode,(p.stdout+p.stderr)
if not os.path.isdir(W):
    sh(f'git -C /repo worktree add -q --detach {W} HEAD',cwd='/')
sh('git checkout -q -- . && git clean -fdq')
patch=f'{src}/patch.diff'
demos=[f for f in glob.glob(f'{src}/*') if re.search(r'_test\.go(\.txt)?$',f)]
readme=open(f'{src}/README.md').read() if os.path.exists(f'{src}/README.md') else ''
placed=[]
tests=[]
pkgs=set()
for d in demos:
    txt=open(d).read()
    pk=re.search(r'^package (\w+)',txt,re.M).group(1)
    sub='testdirectory' if pk.startswith('testdirectory') else '.'
    name=os.path.basename(d).replace('.txt','')
    if not name.endswith('_test.go'): name+='_test.go'
    dst=os.path.join(W,sub,'zz_'+name)
    shutil.copy(d,dst); placed.append(dst); pkgs.add('./'+sub if sub!='.' else '.')
    tests+=re.findall(r'^func (Test\w+)\(',txt,re.M)
race='-race ' if ('-race' in readme and prop=='C15') else ''
run=f"go test {race}-vet=off -count=1 -timeout 300s -run '^({'|'.join(tests)})$' {' '.join(sorted(pkgs))}"
res={}
c,o=sh(run); res['demo_without_patch']='pass' if c==0 else 'FAIL'; res['demo_without_out']=o[-600:]
for p in placed: os.remove(p)
c,o=sh(f'git apply {patch}'); res['applies']=(c==0)
c,o=sh('go build ./... && go test -vet=off -count=1 ./...'); res['suite_with_patch']='pass' if c==0 else 'FAIL'
for d,p in zip(demos,placed): shutil.copy(d,p)
c,o=sh(run); res['demo_with_patch']='fail' if c!=0 else 'PASSES'; res['demo_with_out']=o[-800:]
sh('git checkout -q -- . && git clean -fdq')
ok=res['applies'] and res['suite_with_patch']=='pass' and res['demo_without_patch']=='pass' and res['demo_with_patch']=='fail'
print(sid,prop,'OK' if ok else 'REJECT',{k:v for k,v in res.items() if not k.endswith('_out')})
if ok:
    out=f'/verif/seeded/{sid}'; os.makedirs(out,exist_ok=True)
    shutil.copy(patch,out+'/patch.diff')
    for d in demos: shutil.copy(d,out+'/'+os.path.basename(d).replace('.txt',''))
    if readme: open(out+'/README.md','w').write(readme)
    meta={'id':sid,'property':prop,'origin':f'sub-agent {os.path.basename(agent)} {mk}','needs_to_manifest':'see README.md','confirmed':{'base_commit':subprocess.run('git -C /repo rev-parse --short HEAD',shell=True,capture_output=True,text=True).stdout.strip(),'patch_applies':True,'existing_suite_with_patch':'pass (go test -vet=off -count=1 ./...)','demo_command':run,'demo_without_patch':'pass','demo_with_patch':'fail'},'detected_by':None}
    json.dump(meta,open(out+'/meta.json','w'),indent=1)
else:
    print(res.get('demo_without_out','')[-300:]); print(res.get('demo_with_out','')[-300:])
