#!/bin/bash
# Re-run the quick check that is recorded as catching each seeded change, with the checks as they are now.
cd /verif
out=seeded/RESULTS-final.txt
: > $out
for d in $(ls -d seeded/s* | sort -t s -k3 -n); do
  id=$(basename $d)
  [ -f $d/meta.json ] || continue
  if grep -q '"retired"' $d/meta.json; then echo "$id retired (see meta.json)" >> $out; continue; fi
  prop=$(python3 -c "import json;m=json.load(open('$d/meta.json'));db=m.get('detected_by') or {};print(db.get('check',m['property']).split(',')[0].strip())")
  r=$(WALL=${WALL:-14} tools/try_mutant.sh /verif/$d/patch.diff $prop 2>&1 | tail -1)
  echo "$id $r" | cut -c1-300 >> $out
done
