#!/bin/bash
# tools/try_mutant.sh <patch.diff> <property> [more properties...]
# Applies a patch to a scratch worktree of /repo (so /repo itself is never left
# modified), runs the quick check of each property against it (VERIF_REPO),
# and removes the change. Prints one line per property: DETECTED / missed / TROUBLE.
# USE_REPO=1 applies the patch to /repo itself instead (and undoes it afterwards).
P=$(realpath "$1"); shift
if [ -n "$USE_REPO" ]; then
  R=/repo
  git -C $R diff --quiet || { echo "/repo has uncommitted changes"; exit 2; }
else
  R=/tmp/wt/eval-$$
  git -C /repo worktree add -q --detach $R HEAD || exit 2
fi
cleanup() { if [ -n "$USE_REPO" ]; then git -C /repo checkout -- . >/dev/null 2>&1; else git -C /repo worktree remove --force $R >/dev/null 2>&1; fi; }
trap cleanup EXIT
if ! git -C $R apply --check "$P" 2>/dev/null; then echo "patch does not apply: $P"; exit 2; fi
git -C $R apply "$P"
cd /verif
for prop in "$@"; do
  out=$(VERIF_REPO=$R VERIF_MIN_S=${MIN_S:-3} VERIF_WALL_S=${WALL:-12} ./verif check $prop quick 2>&1); code=$?
  case $code in
    1) echo "DETECTED $prop: $(echo "$out" | grep -A1 '^VIOLATION' | grep '^  ' | head -3 | cut -c1-200 | tr '\n' '|')" ;;
    0) echo "missed   $prop: $(echo "$out" | grep '^verif:' | cut -c1-150)" ;;
    *) echo "TROUBLE  $prop (exit $code): $(echo "$out" | tail -3 | cut -c1-300 | tr '\n' '|')" ;;
  esac
done
rm -f /verif/replays/*.json
