#!/bin/bash
# tools/try_mutant.sh <patch.diff> <property> [more properties...]
# Applies a patch to /repo, runs the quick check of each property, undoes the patch.
# Prints one line per property: DETECTED / missed / tool-trouble.
P=$1; shift
cd /repo || exit 2
if ! git diff --quiet; then echo "/repo has uncommitted changes"; exit 2; fi
if ! git apply --check "$P" 2>/dev/null; then echo "patch does not apply: $P"; exit 2; fi
git apply "$P"
trap 'git -C /repo checkout -- . >/dev/null 2>&1' EXIT
cd /verif
for prop in "$@"; do
  out=$(VERIF_MIN_S=${MIN_S:-3} VERIF_WALL_S=${WALL:-12} ./verif check $prop quick 2>&1); code=$?
  case $code in
    1) echo "DETECTED $prop: $(echo "$out" | grep -A1 '^VIOLATION' | grep '^  ' | head -3 | cut -c1-200 | tr '\n' '|')" ;;
    0) echo "missed   $prop: $(echo "$out" | grep '^verif:' | cut -c1-150)" ;;
    *) echo "TROUBLE  $prop (exit $code): $(echo "$out" | tail -3 | cut -c1-300 | tr '\n' '|')" ;;
  esac
done
rm -f /verif/replays/*.json
