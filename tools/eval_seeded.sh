#!/bin/bash
# run the quick check of each seeded mutant's property against it; results in seeded/RESULTS.txt
cd /verif
: > seeded/RESULTS.txt
for d in seeded/s*; do
  id=$(basename $d); prop=$(python3 -c "import json;print(json.load(open('$d/meta.json'))['property'])")
  r=$(WALL=${WALL:-14} tools/try_mutant.sh /verif/$d/patch.diff $prop 2>&1 | tail -1)
  echo "$id $r" | cut -c1-400 >> seeded/RESULTS.txt
done
