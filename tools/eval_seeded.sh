#!/bin/bash
# tools/eval_seeded.sh [first [last]]: run the quick check of each seeded change's property against it
# (in a scratch worktree, /repo is not touched); results are appended to seeded/RESULTS-<first>.txt
cd /verif
first=${1:-1}; last=${2:-999}
out=seeded/RESULTS-wave-$first.txt
: > $out
for d in seeded/s*; do
  id=$(basename $d); n=$(echo $id | sed 's/^s0*\([0-9]*\)-.*/\1/')
  [ "$n" -ge "$first" ] && [ "$n" -le "$last" ] || continue
  if grep -q '"retired"' $d/meta.json; then echo "$id retired (see meta.json)" >> $out; continue; fi
  prop=$(python3 -c "import json;print(json.load(open('$d/meta.json'))['property'])")
  r=$(WALL=${WALL:-14} tools/try_mutant.sh /verif/$d/patch.diff $prop 2>&1 | tail -1)
  echo "$id $r" | cut -c1-400 >> $out
done
