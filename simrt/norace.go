//go:build !race

package simrt

// RaceBuild reports whether the race detector is compiled in.
const RaceBuild = false

func raceDisable() {}
func raceEnable()  {}

// RaceOff and RaceOn let the scheduler bracket its own synchronisation.
func RaceOff() {}
func RaceOn()  {}
