package simrt

import (
	"context"
	"errors"
	"io"
	"net"
	"os"
	"strconv"
	"syscall"
	"time"
)

// Simulated TCP (DESIGN.md 2.4): a port table, listeners, and connections made
// of two byte pipes. Bytes written are "in flight" until the scheduler
// delivers a chosen number of them; a receive window blocks the writer; close,
// half-close and reset are explicit. Every byte is also kept in a wiretap.

type buf struct {
	b    []byte
	r, w int
}

//go:norace
func (q *buf) len() int { return q.w - q.r }

//go:norace
func (q *buf) put(p []byte) {
	n := len(p)
	if q.w+n > len(q.b) {
		live := q.w - q.r
		nc := 2*len(q.b) + n + 64
		nb := make([]byte, nc)
		for i := 0; i < live; i++ {
			nb[i] = q.b[q.r+i]
		}
		q.b, q.r, q.w = nb, 0, live
	}
	for i := 0; i < n; i++ {
		q.b[q.w+i] = p[i]
	}
	q.w += n
}

//go:norace
func (q *buf) take(dst []byte) int {
	n := q.w - q.r
	if n > len(dst) {
		n = len(dst)
	}
	for i := 0; i < n; i++ {
		dst[i] = q.b[q.r+i]
	}
	q.r += n
	if q.r == q.w {
		q.r, q.w = 0, 0
	}
	return n
}

//go:norace
func (q *buf) moveTo(d *buf, n int) {
	if n > q.w-q.r {
		n = q.w - q.r
	}
	d.put(q.b[q.r : q.r+n])
	q.r += n
	if q.r == q.w {
		q.r, q.w = 0, 0
	}
}

//go:norace
func (q *buf) clear() { q.r, q.w = 0, 0 }

// TapChunk is one write as seen on the wire.
type TapChunk struct {
	Step int64
	At   time.Time
	Data []byte
	next *TapChunk
}

type pipe struct {
	inflight     buf
	ready        buf
	finQueued    bool // the writing side has closed (FIN follows the in-flight bytes)
	finDelivered bool
	window       int // 0: unbounded
	total        int64
	tapHead      *TapChunk
	tapTail      *TapChunk
}

type waiter struct {
	ch   chan struct{}
	next *waiter
}

// Conn is one endpoint of a simulated connection.
type Conn struct {
	w      *World
	ID     int
	Server bool
	Peer   *Conn
	in     *pipe // peer -> me
	out    *pipe // me -> peer
	name   string

	closed    bool
	rst       bool
	rdShut    bool // CloseRead was called
	linger0   bool // SO_LINGER with a zero timeout
	CloseStep int64
	rdl, wdl  time.Time
	rwait     *waiter
	wwait     *waiter

	// Passive endpoints have no goroutine: the scheduler writes and consumes.
	Passive bool

	la, ra *net.TCPAddr
	next   *Conn

	// BlockedW is the number of Write calls currently blocked on the window.
	BlockedW int
	// BlockedR is the number of Read calls currently blocked.
	BlockedR int
}

// Listener is a simulated listening socket.
type Listener struct {
	w         *World
	addr      *net.TCPAddr
	closed    bool
	qHead     *qent
	qTail     *qent
	QLen      int
	errs      int
	wait      *waiter
	next      *Listener
	Accepts   int
	Blocked   int
	reusePort bool // SO_REUSEPORT was set on the socket
}

type qent struct {
	c    *Conn
	next *qent
}

// ---- errors ---------------------------------------------------------------

//go:norace
func (c *Conn) opErr(op string, err error) error {
	return &net.OpError{Op: op, Net: "tcp", Source: c.la, Addr: c.ra, Err: err}
}

// ---- Listen -----------------------------------------------------------------

// Listen replaces net.Listen in the instrumented copy.
//
//go:norace
func Listen(network, address string) (net.Listener, error) {
	w := cur
	if w == nil {
		return net.Listen(network, address)
	}
	return listen(w, network, address, false)
}

// ListenReusePort is Listen for a socket that has SO_REUSEPORT set (the
// harness uses it to hold a port the way another server process with that
// option would).
//
//go:norace
func ListenReusePort(network, address string) (net.Listener, error) {
	return listen(cur, network, address, true)
}

//go:norace
func listen(w *World, network, address string, reusePort bool) (net.Listener, error) {
	host, port, err := net.SplitHostPort(address)
	if err != nil {
		return nil, &net.OpError{Op: "listen", Net: network, Err: err}
	}
	if port == "" {
		port = "0" // as the real net.Listen: an empty port means "any port"
	}
	pn, err := strconv.Atoi(port)
	if err != nil || pn < 0 || pn > 65535 {
		return nil, &net.OpError{Op: "listen", Net: network, Err: &net.AddrError{Err: "invalid port", Addr: port}}
	}
	var ip net.IP
	if host != "" {
		ip = net.ParseIP(host)
		if ip == nil {
			return nil, &net.OpError{Op: "listen", Net: network, Err: &net.DNSError{Err: "no such host", Name: host, IsNotFound: true}}
		}
	}
	raceDisable()
	w.mu.Lock()
	if pn == 0 {
		// ephemeral port
		w.nListen++
		pn = 50000 + w.nListen
	}
	addr := &net.TCPAddr{IP: ip, Port: pn}
	for l := w.listeners; l != nil; l = l.next {
		if !l.closed && l.addr.Port == pn && (l.addr.IP == nil || ip == nil || l.addr.IP.Equal(ip)) && !(l.reusePort && reusePort) {
			// (Linux lets a second socket bind an address in use only if
			// both sockets have SO_REUSEPORT set)
			w.mu.Unlock()
			raceEnable()
			w.Emit("listen-fail", 0, 0, int64(pn), 0, address, nil)
			return nil, &net.OpError{Op: "listen", Net: network, Addr: addr, Err: os.NewSyscallError("bind", syscall.EADDRINUSE)}
		}
	}
	l := &Listener{w: w, addr: addr, next: w.listeners, reusePort: reusePort}
	w.listeners = l
	w.nListen++
	w.mu.Unlock()
	raceEnable()
	w.Emit("listen", 0, 0, int64(pn), 0, address, nil)
	return l, nil
}

// ListenVia replaces lc.Listen(ctx, network, address) for any lc (a
// net.ListenConfig): in a simulated run the socket options a Control function
// would set are beyond the model, and the listener is the simulated one.
//
//go:norace
func ListenVia(lc interface{}, ctx interface{}, network, address string) (net.Listener, error) {
	if cur == nil {
		type listener interface {
			Listen(ctx context.Context, network, address string) (net.Listener, error)
		}
		if l, ok := lc.(listener); ok {
			c, _ := ctx.(context.Context)
			return l.Listen(c, network, address)
		}
		return net.Listen(network, address)
	}
	reuse, err := reusePortOf(lc, network, address)
	if err != nil {
		return nil, &net.OpError{Op: "listen", Net: network, Err: err}
	}
	return listen(cur, network, address, reuse)
}

// probeRaw hands a ListenConfig's Control function a real, unbound socket, so
// that the options it sets can be read back.
type probeRaw struct{ fd int }

func (p probeRaw) Control(f func(fd uintptr)) error { f(uintptr(p.fd)); return nil }
func (p probeRaw) Read(func(fd uintptr) bool) error {
	return errors.New("simrt: read on the probe socket of a ListenConfig.Control")
}
func (p probeRaw) Write(func(fd uintptr) bool) error {
	return errors.New("simrt: write on the probe socket of a ListenConfig.Control")
}

// reusePortOf runs the Control function of a net.ListenConfig, if it has one,
// on a throw-away socket and reports whether it set SO_REUSEPORT: the one
// socket option that changes what the port table must answer. An error from
// Control fails the Listen, as it does in package net.
func reusePortOf(lc interface{}, network, address string) (bool, error) {
	var ctl func(string, string, syscall.RawConn) error
	switch v := lc.(type) {
	case *net.ListenConfig:
		ctl = v.Control
	case net.ListenConfig:
		ctl = v.Control
	}
	if ctl == nil {
		return false, nil
	}
	fd, err := syscall.Socket(syscall.AF_INET, syscall.SOCK_STREAM, 0)
	if err != nil {
		return false, nil
	}
	defer syscall.Close(fd)
	if err := ctl(network, address, probeRaw{fd}); err != nil {
		return false, err
	}
	v, err := syscall.GetsockoptInt(fd, syscall.SOL_SOCKET, soReusePort)
	return err == nil && v != 0, nil
}

// Addr implements net.Listener.
//
//go:norace
func (l *Listener) Addr() net.Addr { return l.addr }

// Close implements net.Listener.
//
//go:norace
func (l *Listener) Close() error {
	w := l.w
	raceDisable()
	w.mu.Lock()
	if l.closed {
		w.mu.Unlock()
		raceEnable()
		return &net.OpError{Op: "close", Net: "tcp", Addr: l.addr, Err: net.ErrClosed}
	}
	l.closed = true
	// connections that were never accepted are reset
	for q := l.qHead; q != nil; q = q.next {
		q.c.resetLocked()
	}
	l.qHead, l.qTail, l.QLen = nil, nil, 0
	wakeAll(&l.wait)
	w.mu.Unlock()
	raceEnable()
	w.Emit("listen-close", 0, 0, int64(l.addr.Port), 0, "", nil)
	return nil
}

// Accept implements net.Listener.
//
//go:norace
func (l *Listener) Accept() (net.Conn, error) {
	w := l.w
	site := "accept:" + itoa(l.addr.Port)
	for {
		raceDisable()
		w.mu.Lock()
		var wt *waiter
		var c *Conn
		var err error
		switch {
		case l.closed:
			err = &net.OpError{Op: "accept", Net: "tcp", Addr: l.addr, Err: net.ErrClosed}
		case l.errs > 0:
			l.errs--
			err = &net.OpError{Op: "accept", Net: "tcp", Addr: l.addr, Err: os.NewSyscallError("accept4", syscall.EMFILE)}
		case l.qHead != nil:
			c = l.qHead.c
			l.qHead = l.qHead.next
			if l.qHead == nil {
				l.qTail = nil
			}
			l.QLen--
			l.Accepts++
		default:
			wt = addWaiter(&l.wait)
			l.Blocked++
		}
		w.mu.Unlock()
		raceEnable()
		if wt == nil {
			if err != nil {
				return nil, err
			}
			w.Emit("accept", c.ID, 0, 0, 0, "", nil)
			return c, nil
		}
		blockOn(wt.ch, time.Time{})
		raceDisable()
		w.mu.Lock()
		l.Blocked--
		w.mu.Unlock()
		raceEnable()
		w.park(w.self(site), "net", site, nil, false, nil)
	}
}

// ---- scheduler-side listener / dial API -------------------------------------

// FindListener returns the open listener on port, or nil (scheduler only).
//
//go:norace
func (w *World) FindListener(port int) *Listener {
	for l := w.listeners; l != nil; l = l.next {
		if !l.closed && l.addr.Port == port {
			return l
		}
	}
	return nil
}

// Closed reports whether the listener has been closed.
//
//go:norace
func (l *Listener) Closed() bool { return l.closed }

// Port returns the port number.
//
//go:norace
func (l *Listener) Port() int { return l.addr.Port }

// Listeners returns how many listeners were ever created and how many are open.
//
//go:norace
func (w *World) Listeners() (total, open int) {
	for l := w.listeners; l != nil; l = l.next {
		total++
		if !l.closed {
			open++
		}
	}
	return
}

// InjectAcceptErrors makes the next n Accept calls fail with EMFILE.
//
//go:norace
func (l *Listener) InjectAcceptErrors(n int) {
	w := l.w
	raceDisable()
	w.mu.Lock()
	l.errs += n
	wakeAll(&l.wait)
	w.mu.Unlock()
	raceEnable()
}

// Dial connects to port. It returns the client endpoint, or nil if the
// connection is refused (no open listener). Scheduler only.
//
//go:norace
func (w *World) Dial(port int, passive bool) *Conn {
	raceDisable()
	w.mu.Lock()
	var l *Listener
	nl := 0
	for x := w.listeners; x != nil; x = x.next {
		if !x.closed && x.addr.Port == port {
			nl++
		}
	}
	if nl > 0 {
		// several listeners share the port (SO_REUSEPORT): the kernel spreads
		// new connections over them; here, in turn
		k := w.nConns % nl
		for x := w.listeners; x != nil; x = x.next {
			if !x.closed && x.addr.Port == port {
				if k == 0 {
					l = x
					break
				}
				k--
			}
		}
	}
	if l == nil {
		w.mu.Unlock()
		raceEnable()
		return nil
	}
	w.nConns++
	id := w.nConns
	a, b := &pipe{}, &pipe{}
	sip := l.addr.IP
	if sip == nil {
		sip = loopback()
	}
	sa := &net.TCPAddr{IP: sip, Port: port}
	// clients come from three source hosts, so that source ports repeat
	// between connections that are open at the same time (distinct
	// four-tuples all the same, as with clients behind different addresses):
	// nothing in the server may take the peer's port for an identity
	cip := loopback()
	cip[3] = byte(1 + (id-1)%3)
	ca := &net.TCPAddr{IP: cip, Port: 40000 + (id-1)/3}
	cl := &Conn{w: w, ID: id, in: a, out: b, name: "c" + itoa(id) + ".c", Passive: passive, la: ca, ra: sa}
	sv := &Conn{w: w, ID: id, Server: true, in: b, out: a, name: "c" + itoa(id) + ".s", la: sa, ra: ca}
	cl.Peer, sv.Peer = sv, cl
	cl.next = w.conns
	sv.next = cl
	w.conns = sv
	q := &qent{c: sv}
	if l.qTail == nil {
		l.qHead = q
	} else {
		l.qTail.next = q
	}
	l.qTail = q
	l.QLen++
	wakeAll(&l.wait)
	w.mu.Unlock()
	raceEnable()
	return cl
}

// loopback builds 127.0.0.1 without going through instrumented library code
// (the address is read later by goroutines of the system under test).
//
//go:norace
func loopback() net.IP {
	ip := make(net.IP, 4)
	ip[0], ip[3] = 127, 1
	return ip
}

// ---- waiters ----------------------------------------------------------------

//go:norace
func addWaiter(list **waiter) *waiter {
	wt := &waiter{ch: make(chan struct{}), next: *list}
	*list = wt
	return wt
}

//go:norace
func wakeAll(list **waiter) {
	for wt := *list; wt != nil; wt = wt.next {
		close(wt.ch)
	}
	*list = nil
}

//go:norace
func blockOn(ch chan struct{}, dl time.Time) {
	raceDisable()
	if dl.IsZero() {
		<-ch
	} else if d := time.Until(dl); d > 0 {
		t := time.NewTimer(d)
		select {
		case <-ch:
		case <-t.C:
		}
		t.Stop()
	}
	raceEnable()
}

// ---- net.Conn ---------------------------------------------------------------

//go:norace
func (c *Conn) yield(op string) {
	site := c.name + "." + op
	c.w.park(c.w.self(site), "net", site, nil, false, nil)
}

// Read implements net.Conn.
//
//go:norace
func (c *Conn) Read(b []byte) (int, error) {
	w := c.w
	for {
		raceDisable()
		w.mu.Lock()
		var wt *waiter
		var err error
		n := 0
		switch {
		case c.closed:
			err = c.opErr("read", net.ErrClosed)
		case c.rst:
			err = c.opErr("read", syscall.ECONNRESET)
		case !c.rdl.IsZero() && !time.Now().Before(c.rdl):
			err = c.opErr("read", os.ErrDeadlineExceeded)
		case c.in.ready.len() > 0:
			n = c.in.ready.take(b)
			if n > 0 {
				wakeAll(&c.Peer.wwait)
			}
		case len(b) == 0:
		case c.in.finDelivered || c.rdShut:
			err = io.EOF
		default:
			wt = addWaiter(&c.rwait)
			c.BlockedR++
		}
		dl := c.rdl
		w.mu.Unlock()
		raceEnable()
		if wt == nil {
			return n, err
		}
		blockOn(wt.ch, dl)
		raceDisable()
		w.mu.Lock()
		c.BlockedR--
		w.mu.Unlock()
		raceEnable()
		c.yield("read")
	}
}

// Write implements net.Conn.
//
//go:norace
func (c *Conn) Write(b []byte) (int, error) {
	w := c.w
	done := 0
	for {
		raceDisable()
		w.mu.Lock()
		var wt *waiter
		var err error
		switch {
		case c.closed:
			err = c.opErr("write", net.ErrClosed)
		case c.rst:
			err = c.opErr("write", syscall.ECONNRESET)
		case c.Peer.closed && c.in.finDelivered:
			err = c.opErr("write", syscall.EPIPE)
		case !c.wdl.IsZero() && !time.Now().Before(c.wdl):
			err = c.opErr("write", os.ErrDeadlineExceeded)
		default:
			room := len(b) - done
			if c.out.window > 0 {
				free := c.out.window - c.out.inflight.len() - c.out.ready.len()
				if free < 0 {
					free = 0
				}
				if room > free {
					room = free
				}
			}
			if room > 0 {
				c.out.inflight.put(b[done : done+room])
				c.tap(b[done : done+room])
				done += room
			}
			if done < len(b) {
				wt = addWaiter(&c.wwait)
				c.BlockedW++
			}
		}
		dl := c.wdl
		w.mu.Unlock()
		raceEnable()
		if wt == nil {
			return done, err
		}
		blockOn(wt.ch, dl)
		raceDisable()
		w.mu.Lock()
		c.BlockedW--
		w.mu.Unlock()
		raceEnable()
		c.yield("write")
	}
}

//go:norace
func (c *Conn) tap(p []byte) {
	d := make([]byte, len(p))
	for i := range p {
		d[i] = p[i]
	}
	t := &TapChunk{Step: c.w.Step, At: time.Now(), Data: d}
	if c.out.tapTail == nil {
		c.out.tapHead = t
	} else {
		c.out.tapTail.next = t
	}
	c.out.tapTail = t
	c.out.total += int64(len(p))
}

// Close implements net.Conn.
//
//go:norace
func (c *Conn) Close() error {
	w := c.w
	raceDisable()
	w.mu.Lock()
	if c.closed {
		w.mu.Unlock()
		raceEnable()
		return c.opErr("close", net.ErrClosed)
	}
	c.closed = true
	c.CloseStep = w.Step
	abort := c.linger0 && !c.rst && (c.out.inflight.len() > 0 || c.out.ready.len() > 0)
	if abort {
		// SO_LINGER with a zero timeout: close() discards what has not reached
		// the peer's application yet and sends RST
		c.resetLocked()
	}
	c.out.finQueued = true
	c.in.ready.clear()
	wakeAll(&c.rwait)
	wakeAll(&c.wwait)
	wakeAll(&c.Peer.wwait)
	w.mu.Unlock()
	raceEnable()
	side := int64(0)
	if c.Server {
		side = 1
	}
	w.Emit("sock-close", c.ID, 0, side, 0, "", nil)
	if abort {
		w.Emit("sock-abort", c.ID, 0, side, 0, "", nil)
	}
	return nil
}

// CloseWrite half-closes the connection (FIN after the in-flight bytes).
//
//go:norace
func (c *Conn) CloseWrite() error {
	w := c.w
	raceDisable()
	w.mu.Lock()
	c.out.finQueued = true
	w.mu.Unlock()
	raceEnable()
	return nil
}

// CloseRead shuts down the reading side as shutdown(SHUT_RD) does on Linux:
// what has already arrived can still be read, after that Read reports EOF
// instead of waiting. (Conn stands in for *net.TCPConn in the scratch copy:
// splice rule R8.)
//
//go:norace
func (c *Conn) CloseRead() error {
	w := c.w
	raceDisable()
	w.mu.Lock()
	var err error
	if c.closed {
		err = c.opErr("close", net.ErrClosed)
	}
	c.rdShut = true
	wakeAll(&c.rwait)
	w.mu.Unlock()
	raceEnable()
	return err
}

// The socket options of *net.TCPConn have no effect in the model.

//go:norace
func (c *Conn) SetKeepAlive(bool) error { return nil }

//go:norace
func (c *Conn) SetKeepAlivePeriod(time.Duration) error { return nil }

//go:norace
func (c *Conn) SetKeepAliveConfig(net.KeepAliveConfig) error { return nil }

// SetLinger(0) makes a later Close abortive (the one TCP option with an
// effect in the model).
//
//go:norace
func (c *Conn) SetLinger(sec int) error {
	w := c.w
	raceDisable()
	w.mu.Lock()
	c.linger0 = sec == 0
	w.mu.Unlock()
	raceEnable()
	return nil
}

//go:norace
func (c *Conn) SetNoDelay(bool) error { return nil }

//go:norace
func (c *Conn) SetReadBuffer(int) error { return nil }

//go:norace
func (c *Conn) SetWriteBuffer(int) error { return nil }

// LocalAddr implements net.Conn.
//
//go:norace
func (c *Conn) LocalAddr() net.Addr { return c.la }

// RemoteAddr implements net.Conn.
//
//go:norace
func (c *Conn) RemoteAddr() net.Addr { return c.ra }

// SetDeadline implements net.Conn.
//
//go:norace
func (c *Conn) SetDeadline(t time.Time) error {
	if err := c.SetReadDeadline(t); err != nil {
		return err
	}
	return c.SetWriteDeadline(t)
}

// SetReadDeadline implements net.Conn.
//
//go:norace
func (c *Conn) SetReadDeadline(t time.Time) error {
	w := c.w
	raceDisable()
	w.mu.Lock()
	if c.closed {
		w.mu.Unlock()
		raceEnable()
		return c.opErr("set", net.ErrClosed)
	}
	c.rdl = t
	wakeAll(&c.rwait)
	w.mu.Unlock()
	raceEnable()
	return nil
}

// SetWriteDeadline implements net.Conn.
//
//go:norace
func (c *Conn) SetWriteDeadline(t time.Time) error {
	w := c.w
	raceDisable()
	w.mu.Lock()
	if c.closed {
		w.mu.Unlock()
		raceEnable()
		return c.opErr("set", net.ErrClosed)
	}
	c.wdl = t
	wakeAll(&c.wwait)
	w.mu.Unlock()
	raceEnable()
	return nil
}

// ---- scheduler-side connection API -------------------------------------------

// Name returns "c<id>.s" or "c<id>.c".
//
//go:norace
func (c *Conn) Name() string { return c.name }

// InFlightIn is the number of bytes written by the peer and not yet delivered.
//
//go:norace
func (c *Conn) InFlightIn() int { return c.in.inflight.len() }

// ReadyIn is the number of delivered bytes not yet read.
//
//go:norace
func (c *Conn) ReadyIn() int { return c.in.ready.len() }

// FinPendingIn reports a FIN waiting behind no in-flight bytes.
//
//go:norace
func (c *Conn) FinPendingIn() bool {
	return c.in.finQueued && !c.in.finDelivered && c.in.inflight.len() == 0 && !c.rst
}

// FinDeliveredIn reports that the peer's FIN has reached this endpoint.
//
//go:norace
func (c *Conn) FinDeliveredIn() bool { return c.in.finDelivered }

// IsClosed reports a local Close.
//
//go:norace
func (c *Conn) IsClosed() bool { return c.closed }

// IsReset reports a reset connection.
//
//go:norace
func (c *Conn) IsReset() bool { return c.rst }

// TotalOut is the number of bytes this endpoint ever wrote.
//
//go:norace
func (c *Conn) TotalOut() int64 { return c.out.total }

// DeliverIn moves up to n in-flight bytes to this endpoint's receive buffer.
//
//go:norace
func (c *Conn) DeliverIn(n int) {
	w := c.w
	raceDisable()
	w.mu.Lock()
	if c.closed {
		// data arriving at a closed socket is dropped
		if n > c.in.inflight.len() {
			n = c.in.inflight.len()
		}
		c.in.inflight.r += n
		if c.in.inflight.r == c.in.inflight.w {
			c.in.inflight.clear()
		}
		wakeAll(&c.Peer.wwait)
	} else {
		c.in.inflight.moveTo(&c.in.ready, n)
		wakeAll(&c.rwait)
	}
	w.mu.Unlock()
	raceEnable()
}

// DeliverFIN delivers the peer's FIN.
//
//go:norace
func (c *Conn) DeliverFIN() {
	w := c.w
	raceDisable()
	w.mu.Lock()
	c.in.finDelivered = true
	wakeAll(&c.rwait)
	wakeAll(&c.wwait)
	w.mu.Unlock()
	raceEnable()
}

//go:norace
func (c *Conn) resetLocked() {
	for _, e := range [2]*Conn{c, c.Peer} {
		e.rst = true
		e.in.inflight.clear()
		e.in.ready.clear()
		wakeAll(&e.rwait)
		wakeAll(&e.wwait)
	}
}

// Reset aborts the connection: in-flight data is discarded, both ends fail.
//
//go:norace
func (c *Conn) Reset() {
	w := c.w
	raceDisable()
	w.mu.Lock()
	c.resetLocked()
	w.mu.Unlock()
	raceEnable()
}

// SendRaw queues bytes from a passive endpoint towards its peer.
//
//go:norace
func (c *Conn) SendRaw(p []byte) {
	w := c.w
	raceDisable()
	w.mu.Lock()
	if !c.rst && !c.closed {
		c.out.inflight.put(p)
		c.tap(p)
	}
	w.mu.Unlock()
	raceEnable()
}

// Consume takes up to max delivered bytes at a passive endpoint.
//
//go:norace
func (c *Conn) Consume(max int) []byte {
	w := c.w
	raceDisable()
	w.mu.Lock()
	n := c.in.ready.len()
	if n > max {
		n = max
	}
	d := make([]byte, n)
	c.in.ready.take(d)
	if n > 0 {
		wakeAll(&c.Peer.wwait)
	}
	w.mu.Unlock()
	raceEnable()
	return d
}

// SetOutWindow sets the receive window the peer advertises to this endpoint:
// Write blocks while in-flight plus unread bytes reach it. 0 is unbounded.
//
//go:norace
func (c *Conn) SetOutWindow(n int) {
	w := c.w
	raceDisable()
	w.mu.Lock()
	c.out.window = n
	wakeAll(&c.wwait)
	w.mu.Unlock()
	raceEnable()
}

// PassiveClose closes a passive endpoint (scheduler only).
//
//go:norace
func (c *Conn) PassiveClose() { _ = c.Close() }

// TapOut returns what this endpoint wrote, chunk by chunk.
//
//go:norace
func (c *Conn) TapOut() []*TapChunk {
	var out []*TapChunk
	for t := c.out.tapHead; t != nil; t = t.next {
		out = append(out, t)
	}
	return out
}

// EachConn calls f for every endpoint, oldest first is not guaranteed; callers
// sort by (ID, Server).
//
//go:norace
func (w *World) EachConn(f func(*Conn)) {
	for c := w.conns; c != nil; c = c.next {
		f(c)
	}
}

// soReusePort is SO_REUSEPORT on Linux (package syscall does not export it
// for every architecture).
const soReusePort = 0xf
