//go:build race

package simrt

import "runtime"

// RaceBuild reports whether the race detector is compiled in.
const RaceBuild = true

//go:norace
func raceDisable() { runtime.RaceDisable() }

//go:norace
func raceEnable() { runtime.RaceEnable() }

// RaceOff and RaceOn let the scheduler bracket its own synchronisation.
//
//go:norace
func RaceOff() { runtime.RaceDisable() }

//go:norace
func RaceOn() { runtime.RaceEnable() }
