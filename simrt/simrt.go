// Package simrt is the run-time half of the gldap simulator (DESIGN.md 2.2-2.4,
// 2.8). A copy of it is placed inside the scratch copy of the repository, and
// the spliced yield points call into it. With no World installed every hook is
// a no-op and Listen is net.Listen.
//
// Rules for this package (they keep the race detector sighted, DESIGN.md 2.8):
// every function is //go:norace; every synchronisation operation the simulator
// performs is bracketed by raceDisable/raceEnable; memory shared between
// goroutines is never touched through append, copy or maps (their runtime
// helpers carry their own race hooks) but through fixed arrays, linked lists
// and manual loops.
package simrt

import (
	"runtime"
	"sync"
)

// World is one simulated run. It is created by the scheduler inside the
// synctest bubble and installed with Install.
type World struct {
	mu sync.Mutex

	// Step is the scheduler's global step counter; only the scheduler writes it.
	Step int64

	parked  [maxParked]*Parked
	nParked int

	sched   uint64 // goroutine id of the scheduler: hooks are no-ops for it
	gids    []gidSlot
	nGids   int
	anonSeq int

	evHead, evTail *Event
	nEvents        int64

	listeners *Listener // linked through next
	conns     *Conn     // linked through next (server endpoints and client endpoints)
	nConns    int
	nListen   int

	// Wake is signalled (non-blocking) whenever a goroutine parks, so that an
	// idling scheduler wakes up.
	Wake chan struct{}

	// ParkOverflow is set if more than maxParked goroutines were parked at once.
	ParkOverflow bool

	// TagEvents: record the emitter of every event (needed only where library
	// goroutines the scheduler does not own emit within one step: S-dir).
	TagEvents bool

	liveHead *Actor

	// points[i] says whether preemption point i yields in this run; set by the
	// scheduler before the system under test starts.
	points []bool

	// R10: iterations since the last yield point, loops that have become
	// yield points, and how many of them there are
	loopRun  int
	hotLoops []bool
	HotLoops int
	killHot  bool
}

// KillHotLoops makes every goroutine that is going round a loop which has
// become a yield point end (runtime.Goexit, deferred calls run) the next time
// it gets there. For the end of a run that hit the step cap.
//
//go:norace
func (w *World) KillHotLoops() { w.killHot = true }

// pointNames is filled in by the generated points_gen.go of the scratch copy.
var pointNames []string

// PointNames lists the preemption points the instrumenter created.
func PointNames() []string { return pointNames }

// EnablePoints selects the preemption points that yield in this run.
//
//go:norace
func (w *World) EnablePoints(ids []int) {
	w.points = make([]bool, len(pointNames))
	for _, i := range ids {
		if i >= 0 && i < len(w.points) {
			w.points[i] = true
		}
	}
}

// Point is spliced at the start of every function of the system under test.
// It yields only if the scheduler enabled this site for the run.
//
//go:norace
func Point(id int) {
	w := cur
	if w == nil || id >= len(w.points) || !w.points[id] {
		return
	}
	w.park(w.self("point"), "point", pointNames[id], nil, false, nil)
}

// loopNames is filled in by the generated points_gen.go of the scratch copy.
var loopNames []string

// loopYieldAfter is the number of loop iterations, counted over all loops and
// without any yield point in between, after which the loop that is running
// becomes a yield point for the rest of the run.
const loopYieldAfter = 50000

// Loop is spliced at the head of every loop body of the system under test
// (R10). Only one goroutine of the system under test runs between two yield
// points, so one counter per world is enough; park resets it.
//
//go:norace
func Loop(id int) {
	w := cur
	if w == nil || id >= len(loopNames) {
		return
	}
	if w.hotLoops != nil && w.hotLoops[id] {
		if !w.killHot {
			w.park(w.self("loop"), "loop", loopNames[id], nil, false, nil)
		}
		if w.killHot {
			// the run is over and was judged; a goroutine that never leaves
			// this loop would keep the bubble from ending
			runtime.Goexit()
		}
		return
	}
	w.loopRun++
	if w.loopRun < loopYieldAfter {
		return
	}
	if w.hotLoops == nil {
		w.hotLoops = make([]bool, len(loopNames))
	}
	w.hotLoops[id] = true
	w.HotLoops++
	w.park(w.self("loop"), "loop", loopNames[id], nil, false, nil)
}

const maxParked = 8192

// Parked is a goroutine waiting at a yield point for the scheduler.
type Parked struct {
	Actor string // deterministic label of the goroutine
	Kind  string // go | lock | wake | net | task | stall
	Site  string
	Seq   int64 // per-actor park counter
	A     *Actor

	lock  interface{} // for Kind == lock: the mutex to probe
	rlock bool
	// Pending: a writer that has, as far as the program is concerned, already
	// called Lock on an RWMutex that readers still hold. Go's RWMutex makes new
	// readers wait behind such a writer; so does the scheduler.
	Pending bool
	// Ready, if set, is evaluated by the scheduler goroutine only.
	Ready func() bool
	ch    chan struct{}
	idx   int
}

// Actor identifies a goroutine of the system under test or of the harness by a
// label derived from how it was spawned, never from arrival order.
type Actor struct {
	Label  string
	parks  int64
	spawns *spawnCount
	live   bool
	nextL  *Actor
	prevL  *Actor
}

type spawnCount struct {
	site string
	n    int
	next *spawnCount
}

type gidSlot struct {
	gid uint64
	a   *Actor
}

// Event is one observation, stamped with the scheduler step at which it was
// made. Events are written here (norace) and read by the scheduler.
type Event struct {
	Step  int64
	Actor string // label of the emitting goroutine ("ext" if the instrumenter never saw it)
	Kind  string
	Conn int
	Msg  int64
	A, B int64
	S    string
	P    interface{}
	next *Event
}

var cur *World

// Install makes w the world the hooks talk to (nil: inert).
//
//go:norace
func Install(w *World) { cur = w }

// Active reports whether a world is installed.
//
//go:norace
func Active() bool { return cur != nil }

// runStart holds what splice rule R9 registered: functions that make the
// package-level channels of the system under test again.
var runStart []func()

// OnRunStart registers f to be called inside the bubble at the start of every
// run. Called from init functions only.
//
//go:norace
func OnRunStart(f func()) { runStart = append(runStart, f) }

// NewWorld must be called inside the bubble.
//
//go:norace
func NewWorld() *World {
	for i := 0; i < len(runStart); i++ {
		runStart[i]()
	}
	w := &World{}
	w.gids = make([]gidSlot, 1024)
	w.Wake = make(chan struct{}, 1)
	w.sched = goid()
	return w
}

// ---- goroutine identity ---------------------------------------------------

//go:norace
func goid() uint64 {
	var buf [64]byte
	n := runtime.Stack(buf[:], false)
	// "goroutine 123 ["
	var id uint64
	for i := 10; i < n; i++ {
		c := buf[i]
		if c < '0' || c > '9' {
			break
		}
		id = id*10 + uint64(c-'0')
	}
	return id
}

//go:norace
func (w *World) lookup(gid uint64) *Actor {
	m := uint64(len(w.gids) - 1)
	for i := gid * 0x9E3779B97F4A7C15 >> 20 & m; ; i = (i + 1) & m {
		s := &w.gids[i]
		if s.gid == gid {
			return s.a
		}
		if s.gid == 0 {
			return nil
		}
	}
}

//go:norace
func (w *World) bind(gid uint64, a *Actor) {
	if (w.nGids+1)*2 > len(w.gids) {
		old := w.gids
		w.gids = make([]gidSlot, len(old)*2)
		w.nGids = 0
		for i := range old {
			if old[i].gid != 0 {
				w.bind(old[i].gid, old[i].a)
			}
		}
	}
	m := uint64(len(w.gids) - 1)
	for i := gid * 0x9E3779B97F4A7C15 >> 20 & m; ; i = (i + 1) & m {
		s := &w.gids[i]
		if s.gid == gid {
			s.a = a
			return
		}
		if s.gid == 0 {
			s.gid, s.a = gid, a
			w.nGids++
			return
		}
	}
}

var schedActor = &Actor{Label: "scheduler"}

//go:norace
func (w *World) schedActor() *Actor { return schedActor }

// self returns the calling goroutine's actor, creating an anonymous one keyed
// by hint for goroutines the instrumenter never saw (library internals).
//
//go:norace
func (w *World) self(hint string) *Actor {
	g := goid()
	if g == w.sched {
		return schedActor
	}
	raceDisable()
	w.mu.Lock()
	a := w.lookup(g)
	if a == nil {
		a = &Actor{Label: "ext:" + hint}
		w.bind(g, a)
	}
	w.mu.Unlock()
	raceEnable()
	return a
}

// Self returns the label of the calling goroutine ("" if unknown or inert).
//
//go:norace
func Self() string {
	w := cur
	if w == nil {
		return ""
	}
	g := goid()
	raceDisable()
	w.mu.Lock()
	a := w.lookup(g)
	w.mu.Unlock()
	raceEnable()
	if a == nil {
		return ""
	}
	return a.Label
}

// ---- parking --------------------------------------------------------------

//go:norace
func (w *World) park(a *Actor, kind, site string, lock interface{}, rlock bool, ready func() bool) {
	if a == w.schedActor() {
		return
	}
	w.loopRun = 0
	p := &Parked{Actor: a.Label, Kind: kind, Site: site, A: a, lock: lock, rlock: rlock, Ready: ready}
	raceDisable()
	p.ch = make(chan struct{}, 1)
	w.mu.Lock()
	a.parks++
	p.Seq = a.parks
	if w.nParked < maxParked {
		p.idx = w.nParked
		w.parked[w.nParked] = p
		w.nParked++
	} else {
		w.ParkOverflow = true
	}
	w.mu.Unlock()
	select {
	case w.Wake <- struct{}{}:
	default:
	}
	<-p.ch
	raceEnable()
}

// Park parks the calling goroutine at a harness yield point. ready (may be
// nil) is evaluated on the scheduler goroutine only.
//
//go:norace
func Park(kind, site string, ready func() bool) {
	w := cur
	if w == nil {
		return
	}
	w.park(w.self(site), kind, site, nil, false, ready)
}

// Snapshot copies the parked set into dst (scheduler only).
//
//go:norace
func (w *World) Snapshot(dst []*Parked) []*Parked {
	dst = dst[:0]
	raceDisable()
	w.mu.Lock()
	n := w.nParked
	w.mu.Unlock()
	raceEnable()
	for i := 0; i < n; i++ {
		dst = append(dst, w.parked[i])
	}
	return dst
}

// Enabled reports whether p may be released now: its lock probe succeeds and
// its Ready function, if any, returns true. Scheduler only.
//
//go:norace
func (w *World) Enabled(p *Parked) bool {
	if p.Ready != nil && !p.Ready() {
		return false
	}
	if p.lock == nil {
		return true
	}
	if p.rlock {
		// writer preference: a reader queues behind a pending writer
		id := lockID(p.lock)
		for i := 0; i < w.nParked; i++ {
			if q := w.parked[i]; q.Pending && lockID(q.lock) == id {
				return false
			}
		}
	}
	raceDisable()
	ok := probe(p.lock, p.rlock)
	raceEnable()
	return ok
}

//go:norace
func lockID(l interface{}) interface{} {
	switch m := l.(type) {
	case **sync.Mutex:
		return *m
	case **sync.RWMutex:
		return *m
	}
	return l
}

// CanPend reports whether p is a writer waiting for an RWMutex that only
// readers hold (so that its Lock call would queue and hold back new readers).
//
//go:norace
func (w *World) CanPend(p *Parked) bool {
	if p.lock == nil || p.rlock || p.Pending {
		return false
	}
	if _, ok := lockID(p.lock).(*sync.RWMutex); !ok {
		return false
	}
	raceDisable()
	ok := !probe(p.lock, false) && probe(p.lock, true)
	raceEnable()
	return ok
}

// SetPending marks the writer as having called Lock (scheduler only).
//
//go:norace
func (w *World) SetPending(p *Parked) { p.Pending = true }

// Live returns the labels of the goroutines of the system under test that
// have started and not yet returned (scheduler only).
//
//go:norace
func (w *World) Live(dst []string) []string {
	dst = dst[:0]
	raceDisable()
	w.mu.Lock()
	for a := w.liveHead; a != nil; a = a.nextL {
		dst = append(dst, a.Label)
	}
	w.mu.Unlock()
	raceEnable()
	return dst
}

type tryLocker interface {
	TryLock() bool
	Unlock()
}
type tryRLocker interface {
	TryRLock() bool
	RUnlock()
}

//go:norace
func probe(l interface{}, r bool) bool {
	switch m := l.(type) {
	case **sync.Mutex:
		return probe(*m, r)
	case **sync.RWMutex:
		return probe(*m, r)
	}
	if r {
		if m, ok := l.(tryRLocker); ok {
			if m.TryRLock() {
				m.RUnlock()
				return true
			}
			return false
		}
		return true
	}
	if m, ok := l.(tryLocker); ok {
		if m.TryLock() {
			m.Unlock()
			return true
		}
		return false
	}
	return true // unknown kind of lock: do not hold the goroutine back
}

// Release lets a parked goroutine continue (scheduler only).
//
//go:norace
func (w *World) Release(p *Parked) {
	raceDisable()
	w.mu.Lock()
	last := w.nParked - 1
	if p.idx <= last && w.parked[p.idx] == p {
		w.parked[p.idx] = w.parked[last]
		w.parked[p.idx].idx = p.idx
		w.parked[last] = nil
		w.nParked--
	}
	w.mu.Unlock()
	p.ch <- struct{}{}
	raceEnable()
}

// ---- hooks spliced into the system under test -------------------------------

// BeforeGo runs in the parent, immediately before a go statement; it returns
// the identity the child will carry.
//
//go:norace
func BeforeGo(site string) *Actor {
	w := cur
	if w == nil {
		return nil
	}
	pa := w.self(site)
	raceDisable()
	w.mu.Lock()
	var sc *spawnCount
	for s := pa.spawns; s != nil; s = s.next {
		if s.site == site {
			sc = s
			break
		}
	}
	if sc == nil {
		sc = &spawnCount{site: site, next: pa.spawns}
		pa.spawns = sc
	}
	sc.n++
	n := sc.n
	w.mu.Unlock()
	raceEnable()
	return &Actor{Label: pa.Label + ">" + site + "#" + itoa(n)}
}

// GoStart is the first statement of every spawned goroutine.
//
//go:norace
func GoStart(a *Actor) {
	w := cur
	if w == nil || a == nil {
		return
	}
	g := goid()
	raceDisable()
	w.mu.Lock()
	w.bind(g, a)
	a.live = true
	a.nextL, a.prevL = w.liveHead, nil
	if w.liveHead != nil {
		w.liveHead.prevL = a
	}
	w.liveHead = a
	w.mu.Unlock()
	raceEnable()
	w.park(a, "go", "", nil, false, nil)
}

// GoEnd is deferred at the start of every spawned goroutine: the goroutine
// has returned.
//
//go:norace
func GoEnd(a *Actor) {
	w := cur
	if w == nil || a == nil {
		return
	}
	raceDisable()
	w.mu.Lock()
	if a.live {
		a.live = false
		if a.prevL != nil {
			a.prevL.nextL = a.nextL
		} else if w.liveHead == a {
			w.liveHead = a.nextL
		}
		if a.nextL != nil {
			a.nextL.prevL = a.prevL
		}
	}
	w.mu.Unlock()
	raceEnable()
}

// BeforeLock parks until the scheduler has seen the lock free and chosen this
// goroutine; the Lock call that follows then cannot block.
//
//go:norace
func BeforeLock(site string, l interface{}) {
	w := cur
	if w == nil {
		return
	}
	w.park(w.self(site), "lock", site, l, false, nil)
}

// BeforeRLock is BeforeLock for read locks.
//
//go:norace
func BeforeRLock(site string, l interface{}) {
	w := cur
	if w == nil {
		return
	}
	w.park(w.self(site), "lock", site, l, true, nil)
}

// AfterWake parks a goroutine that has just been woken from a blocking
// operation (WaitGroup.Wait, channel operation, Sleep), before it touches
// anything.
//
//go:norace
func AfterWake(site string) {
	w := cur
	if w == nil {
		return
	}
	w.park(w.self(site), "wake", site, nil, false, nil)
}

// Go starts a harness task as a labelled actor. It parks before running fn.
func (w *World) Go(label string, fn func()) {
	a := &Actor{Label: label}
	go func() {
		goStartTask(w, a)
		fn()
	}()
}

//go:norace
func goStartTask(w *World, a *Actor) {
	g := goid()
	raceDisable()
	w.mu.Lock()
	w.bind(g, a)
	w.mu.Unlock()
	raceEnable()
	w.park(a, "task", "", nil, false, nil)
}

// ---- events ---------------------------------------------------------------

// Emit appends an observation to the history.
//
//go:norace
func Emit(kind string, conn int, msg int64, a, b int64, s string, p interface{}) {
	w := cur
	if w == nil {
		return
	}
	w.Emit(kind, conn, msg, a, b, s, p)
}

//go:norace
func (w *World) Emit(kind string, conn int, msg int64, a, b int64, s string, p interface{}) {
	e := &Event{Kind: kind, Conn: conn, Msg: msg, A: a, B: b, S: s, P: p}
	var g uint64
	if w.TagEvents {
		g = goid()
	}
	raceDisable()
	w.mu.Lock()
	e.Step = w.Step
	switch {
	case !w.TagEvents:
	case g == w.sched:
		e.Actor = "scheduler"
	default:
		if a := w.lookup(g); a != nil {
			e.Actor = a.Label
		} else {
			e.Actor = "ext"
		}
	}
	if w.evTail == nil {
		w.evHead = e
	} else {
		w.evTail.next = e
	}
	w.evTail = e
	w.nEvents++
	w.mu.Unlock()
	raceEnable()
}

// Drain hands every event not yet drained to the scheduler, in order.
//
//go:norace
func (w *World) Drain(dst []*Event) []*Event {
	dst = dst[:0]
	raceDisable()
	w.mu.Lock()
	e := w.evHead
	w.evHead, w.evTail = nil, nil
	w.mu.Unlock()
	raceEnable()
	for ; e != nil; e = e.next {
		dst = append(dst, e)
	}
	return dst
}

//go:norace
func itoa(n int) string {
	if n == 0 {
		return "0"
	}
	neg := n < 0
	if neg {
		n = -n
	}
	var b [20]byte
	i := len(b)
	for n > 0 {
		i--
		b[i] = byte('0' + n%10)
		n /= 10
	}
	if neg {
		i--
		b[i] = '-'
	}
	return string(b[i:])
}
