// Command verif is the orchestrator of the gldap simulator checks
// (DESIGN.md 2.9, 5, 6): it copies /repo's working tree to a scratch
// directory, splices the yield points in, builds the worker, runs seeded
// simulations on every core, attributes worker deaths, minimises and replays
// violations, applies the known-findings list and writes the evidence file.
package main

import (
	"bufio"
	"bytes"
	"crypto/sha256"
	"encoding/json"
	"fmt"
	"os"
	"os/exec"
	"path/filepath"
	"regexp"
	"runtime"
	"sort"
	"strconv"
	"strings"
	"sync"
	"time"
)

const scratch = "/tmp/gldap-verif"

// repoDir is /repo; VERIF_REPO lets the sensitivity tooling (tools/) point a
// check at a scratch worktree with a seeded change applied, so that /repo is
// never left modified. The registered commands do not set it.
var repoDir = func() string {
	if d := os.Getenv("VERIF_REPO"); d != "" {
		return d
	}
	return "/repo"
}()

// verifDir is the directory the orchestrator lives in (bin/verif's parent's
// parent), so that a snapshot of /verif is self-contained.
var verifDir = func() string {
	if exe, err := os.Executable(); err == nil {
		if d := filepath.Dir(filepath.Dir(exe)); d != "" {
			if _, err := os.Stat(filepath.Join(d, "sim")); err == nil {
				return d
			}
		}
	}
	return "/verif"
}()

type Violation struct {
	Property string `json:"property"`
	Rule     string `json:"rule"`
	Key      string `json:"key"`
	Detail   string `json:"detail"`
	Step     int64  `json:"step"`
}

func (v Violation) ID() string { return v.Property + " " + v.Rule + " " + v.Key }

type WorkerCfg struct {
	Prop     string   `json:"prop"`
	Tier     string   `json:"tier"`
	Seed     uint64   `json:"seed"`
	From     int      `json:"from"`
	Count    int      `json:"count"`
	Stride   int      `json:"stride"`
	Out      string   `json:"out"`
	Replay   []uint32 `json:"replay,omitempty"`
	IsReplay bool     `json:"is_replay,omitempty"`
	Verbose  bool     `json:"verbose,omitempty"`
	Lean     bool     `json:"lean,omitempty"`
	MaxSteps int      `json:"max_steps,omitempty"`
	WallS    float64  `json:"wall_s,omitempty"`
	Samples  int      `json:"samples,omitempty"`
	EventLog bool     `json:"event_log,omitempty"`
}

type WorkerSummary struct {
	Runs       int            `json:"runs"`
	Nontrivial int            `json:"nontrivial"`
	Sigs       []string       `json:"sigs"`
	Steps      int64          `json:"steps"`
	SimTimeMS  int64          `json:"sim_time_ms"`
	StepCaps   int            `json:"step_caps"`
	Leaks      int            `json:"leaks"`
	Probes     map[string]int `json:"probes"`
	Faults     map[string]int `json:"faults"`
	WallS      float64        `json:"wall_s"`
	Samples    []interface{}  `json:"samples"`
	Final      bool           `json:"final"`
}

type RunResult struct {
	Type     string         `json:"type"`
	I        int            `json:"i"`
	RunSeed  uint64         `json:"run_seed"`
	Viol     []Violation    `json:"viol"`
	Choices  []uint32       `json:"choices"`
	Trace    []string       `json:"trace"`
	Config   string         `json:"config"`
	Steps    int            `json:"steps"`
	Sig      string         `json:"sig"`
	Harness  string         `json:"harness_error"`
	Leak     string         `json:"leak"`
	EventLog []string       `json:"event_log"`
	Summary  *WorkerSummary `json:"summary"`
}

type Finding struct {
	Property string `json:"property"`
	Rule     string `json:"rule"`
	Key      string `json:"key"`
	Status   string `json:"status"` // "open" or "fixed: <commit>"
	What     string `json:"what"`
}

type propInfo struct {
	race    bool
	lean    bool
	quickS  float64 // wall-clock budget of the simulation part
	thorS   float64
	maxRuns int
	rule    string // how cases are generated and what makes one non-trivial
	level   string
}

var props = map[string]propInfo{}

func init() {
	def := propInfo{quickS: 25, thorS: 600, maxRuns: 2000000, level: "exploration"}
	rules := map[string]string{
		"C01": "each case is one seeded simulated run (S-core: real gldap.Server over the simulated transport, raw clients sending generated requests of all seven operations plus unsupported ones through fragmenting/coalescing pipes); non-trivial = at least one handler was entered; distinct = distinct schedule signature (hash of the sequence of (actor, yield site / scheduler action) pairs)",
		"C03": "seeded runs with a random route table (up to 4 routes quick / 6 thorough, default and unbind routes registered 0-2 times, in a quarter of the tables the last routes registered on the live mux after Run has started) and pipelined requests over the same alphabet, now and then 129-220 of them with every handler blocked; non-trivial = a handler was entered or a refusal was received; distinct = schedule signature",
		"C04": "seeded runs in which handler scripts build every response kind with random option subsets and setter sequences and write them through the shared writer; non-trivial = at least one frame was received by a client; distinct = schedule signature",
		"C05": "seeded runs with 2..48 (quick) / 2..400 (thorough) concurrently dispatched handlers on one connection, each writing 1-6 frames, with small receive windows, clients that stop reading, frames padded to exactly the write-buffer size, write timeouts and clock jumps; non-trivial = at least two response frames were attempted on one connection; distinct = schedule signature",
		"C06": "seeded runs in which every handler blocks at entry; oracle at the first quiescence with no handler released; non-trivial = a pipeline of at least two stalled handlers on one connection; distinct = schedule signature",
		"C07": "seeded runs with faults (reset, accept error, client stops reading, truncated frame, garbage, handler panic) inside bystander traffic; non-trivial = at least one fault fired; distinct = schedule signature",
		"C08": "seeded runs over every connection ending x in-flight state; non-trivial = at least one connection ending was judged; distinct = schedule signature",
		"C09": "seeded runs with many connect/request/close/reconnect sequences; non-trivial = at least one connection ending was judged; distinct = schedule signature",
		"C10": "seeded runs with pipelines <requests> Unbind <requests>; non-trivial = an Unbind was delivered on an undisturbed connection; distinct = schedule signature",
		"C11": "seeded runs in which Stop is invoked at a scheduler-chosen step (also while Run is still starting up) while clients stay passive; a Stop that nothing in the harness held up must return within 10 s of simulated time; non-trivial = Stop was invoked with at least one accepted connection; distinct = schedule signature",
		"C12": "seeded runs over all orders of Stop relative to Run's steps; non-trivial = Stop was invoked; distinct = schedule signature",
		"C13": "seeded runs with StartTLS clients (handler stalls before and after the reply, plaintext injected behind the StartTLS request, StartTLS asked for again inside the tunnel, upgrades performed by the default route), clock jumps and Stop; non-trivial = a handler was entered; distinct = schedule signature",
		"C14": "seeded runs with generated controls of all nine typed kinds and arbitrary OIDs in both directions, decoded by gldap and by go-ldap, plus a sweep of the Behera constructor; non-trivial = a handler was entered; distinct = schedule signature",
		"C18": "seeded runs against TLS listeners (server authentication, and client certificate required) with conforming clients and clients that send plaintext or garbage, stay silent, abandon the handshake, present no or a foreign certificate (now and then a crowd of 9-14 of them), and the test directory with WithMTLS probed with valid, missing, foreign and sibling-CA certificates; non-trivial = a handshake was attempted; distinct = schedule signature",
		"C19": "seeded runs of the real test directory with go-ldap clients over plain, TLS and StartTLS: binds (one at a time and 2-4 at the same moment) against generated user sets with Set* calls in between, judged by a three-line reference predicate; distinct = schedule signature",
		"C20": "seeded runs of the real test directory with go-ldap clients: add, modify, delete, searches (users base, groups base, entry DN) and Set* calls one operation at a time against a reference store, with one client reset during a search; distinct = schedule signature",
		"C17": "seeded runs with a Ready poller racing Run over valid, malformed and busy addresses (the port held with and without SO_REUSEPORT), with bursts of Accept errors; non-trivial = Ready was observed true or Run failed; distinct = schedule signature",
	}
	for i := 1; i <= 20; i++ {
		id := fmt.Sprintf("C%02d", i)
		p := def
		p.rule = rules[id]
		if p.rule == "" {
			p.rule = "seeded simulated runs; distinct = schedule signature"
		}
		props[id] = p
	}
	c15 := props["C15"]
	c15.race, c15.lean, c15.quickS = true, true, 40
	props["C15"] = c15
	c05 := props["C05"]
	c05.quickS = 35
	props["C05"] = c05
	c02 := props["C02"]
	c02.quickS, c02.level = 40, "fault_enumeration"
	c02.rule = "cases are simulated runs, each carrying 6 mutated frames on their own connections between valid requests, next to bystander connections; run i < blocks carries the i-th block of the complete single-point mutation enumeration (every node of each of 7 operations x 16 control shapes x {18 replacement node kinds, delete, duplicate, swap, truncate/extend children, 5 length corruptions, flipped constructed bit, empty/long value}); later runs carry seeded double mutations and byte damage; non-trivial = the run carried at least one mutant; distinct = schedule signature"
	props["C02"] = c02
}

func env() []string {
	e := os.Environ()
	e = append(e, "GOFLAGS=-mod=mod", "GOPROXY=off", "GOSUMDB=off", "GOTOOLCHAIN=local", "CGO_ENABLED=1")
	return e
}

func die(code int, format string, a ...interface{}) {
	fmt.Fprintf(os.Stderr, "verif: "+format+"\n", a...)
	os.Exit(code)
}

func run(dir string, name string, args ...string) ([]byte, error) {
	cmd := exec.Command(name, args...)
	cmd.Dir = dir
	cmd.Env = env()
	return cmd.CombinedOutput()
}

// prepare builds the worker for the current working tree of /repo.
func prepare(tag string, race bool) (dir string, worker string) {
	if verifDir != "/verif" || repoDir != "/repo" {
		h := sha256.Sum256([]byte(verifDir + "|" + repoDir))
		tag += fmt.Sprintf("-%x", h[:3])
	}
	dir = filepath.Join(scratch, tag)
	os.RemoveAll(filepath.Join(dir, "repo"))
	os.RemoveAll(filepath.Join(dir, "h"))
	if err := os.MkdirAll(dir, 0o755); err != nil {
		die(2, "%v", err)
	}
	if out, err := run("/", "rsync", "-a", "--delete", "--exclude", ".git", repoDir+"/", dir+"/repo/"); err != nil {
		die(2, "rsync: %v\n%s", err, out)
	}
	os.MkdirAll(dir+"/repo/simrt", 0o755)
	files, _ := filepath.Glob(verifDir + "/simrt/*.go")
	for _, f := range files {
		cp(f, dir+"/repo/simrt/"+filepath.Base(f))
	}
	cp(verifDir+"/simrt/export_gldap.go.txt", dir+"/repo/zz_simexport.go")
	inst := verifDir + "/bin/instrument"
	if _, err := os.Stat(inst); err != nil {
		die(2, "%s missing: run MANIFEST.setup_cmd (./setup.sh)", inst)
	}
	if out, err := run("/", inst, dir+"/repo"); err != nil {
		die(2, "instrument: %v\n%s", err, out)
	}
	os.MkdirAll(dir+"/h/sim", 0o755)
	files, _ = filepath.Glob(verifDir + "/sim/*.go")
	for _, f := range files {
		cp(f, dir+"/h/sim/"+filepath.Base(f))
	}
	gomod := fmt.Sprintf("module verifsim\n\ngo 1.26\n\nrequire github.com/jimlambrt/gldap v0.0.0\n\nreplace github.com/jimlambrt/gldap => %s/repo\n", dir)
	os.WriteFile(dir+"/h/go.mod", []byte(gomod), 0o644)
	cp(repoDir+"/go.sum", dir+"/h/go.sum")
	worker = dir + "/worker"
	args := []string{"test", "-c", "-trimpath", "-vet=off"}
	if race {
		args = append(args, "-race")
	}
	args = append(args, "-o", worker, "./sim")
	if out, err := run(dir+"/h", "go1.26.8", args...); err != nil {
		fmt.Fprintf(os.Stderr, "%s\n", out)
		die(2, "the simulator does not build against the current tree of %s (tool trouble, not a violation): %v", repoDir, err)
	}
	return dir, worker
}

func cp(src, dst string) {
	b, err := os.ReadFile(src)
	if err != nil {
		die(2, "%v", err)
	}
	if err := os.WriteFile(dst, b, 0o644); err != nil {
		die(2, "%v", err)
	}
}

type crash struct {
	I       int
	Text    string
	Site    string // first frame of the panicking goroutine inside gldap or the harness
	Gor     string // creation site of the panicking goroutine
	Kind    string // panic | fatal | watchdog | exit
	InSUT   bool
	Handler bool
}

var reFrameFile = regexp.MustCompile(`^\t(\S+\.go):(\d+)`)

func parseCrash(stderr string) crash {
	c := crash{Kind: "exit"}
	lines := strings.Split(stderr, "\n")
	start := -1
	for i, l := range lines {
		if strings.HasPrefix(l, "panic: ") || strings.HasPrefix(l, "fatal error: ") {
			start = i
			if strings.HasPrefix(l, "panic: ") {
				c.Kind = "panic"
			} else {
				c.Kind = "fatal"
			}
			c.Text = l
			break
		}
		if strings.Contains(l, "WATCHDOG") {
			c.Kind = "watchdog"
			c.Text = l
			return c
		}
	}
	if start < 0 {
		if len(stderr) > 400 {
			stderr = stderr[len(stderr)-400:]
		}
		c.Text = stderr
		return c
	}
	// first goroutine block after the panic line is the panicking goroutine
	i := start + 1
	for i < len(lines) && !strings.HasPrefix(lines[i], "goroutine ") {
		if strings.HasPrefix(lines[i], "\t") || strings.TrimSpace(lines[i]) == "" || strings.HasPrefix(lines[i], "[") {
			i++
			continue
		}
		c.Text += " " + strings.TrimSpace(lines[i])
		i++
	}
	for i++; i+1 < len(lines) && strings.TrimSpace(lines[i]) != ""; i += 2 {
		fn := lines[i]
		if strings.HasPrefix(fn, "created by ") {
			c.Gor = strings.TrimPrefix(fn, "created by ")
			if k := strings.Index(c.Gor, " in goroutine"); k > 0 {
				c.Gor = c.Gor[:k]
			}
			if k := strings.LastIndex(c.Gor, "/"); k >= 0 {
				c.Gor = c.Gor[k+1:]
			}
			break
		}
		if strings.HasPrefix(fn, "runtime.") || strings.HasPrefix(fn, "panic(") || strings.HasPrefix(fn, "runtime/") || strings.HasPrefix(fn, "testing.") {
			continue
		}
		if c.Site == "" {
			if m := reFrameFile.FindStringSubmatch(lines[i+1]); m != nil {
				c.Site = filepath.Base(m[1]) + ":" + m[2]
			}
			c.InSUT = strings.HasPrefix(fn, "github.com/jimlambrt/gldap") && !strings.Contains(fn, "/simrt.")
			c.Handler = strings.Contains(fn, "verifsim/sim.(*Core).handler") || strings.Contains(fn, "verifsim/sim.(*Core).Setup.(*Core).handler")
		}
	}
	return c
}

// raceReport is one report of the race detector, attributed to a run.
type raceReport struct {
	run   int
	sites [2]string
	noise bool
	text  string
}

var reRaceFrame = regexp.MustCompile(`^  (\S.*)\(\)$`)

func shortFn(fn string) string {
	fn = strings.TrimPrefix(fn, "github.com/jimlambrt/gldap/")
	fn = strings.TrimPrefix(fn, "github.com/jimlambrt/")
	fn = strings.TrimPrefix(fn, "github.com/")
	return fn
}

// parseRaces extracts the race reports from a worker's stderr. srcDir is the
// scratch directory (to look at harness source lines).
func parseRaces(stderr, srcDir string) []raceReport {
	var out []raceReport
	run := -1
	lines := strings.Split(stderr, "\n")
	for i := 0; i < len(lines); i++ {
		if strings.HasPrefix(lines[i], "@@RUN ") {
			run, _ = strconv.Atoi(strings.TrimPrefix(lines[i], "@@RUN "))
			continue
		}
		if lines[i] != "WARNING: DATA RACE" {
			continue
		}
		rr := raceReport{run: run}
		j := i + 1
		for acc := 0; acc < 2 && j < len(lines); acc++ {
			// access header line, then frames until a blank line
			j++
			site, noise := "?", false
			found := false
			for ; j+1 < len(lines) && strings.TrimSpace(lines[j]) != ""; j += 2 {
				if found {
					continue
				}
				fn := strings.TrimSuffix(strings.TrimSpace(lines[j]), "()")
				loc := strings.Fields(strings.TrimSpace(lines[j+1]))
				if strings.HasPrefix(fn, "runtime.") || len(loc) == 0 {
					continue
				}
				found = true
				switch {
				case strings.HasPrefix(fn, "verifsim/sim.") || strings.Contains(fn, "/simrt."):
					// a harness frame: it counts only as the call site of an API of the system under test
					callee := harnessCallee(srcDir, loc[0])
					if callee == "" {
						noise = true
						site = "harness:" + shortFn(fn)
					} else {
						site = "call:" + callee
					}
				default:
					site = shortFn(fn)
				}
			}
			rr.sites[acc] = site
			if noise {
				rr.noise = true
			}
			for j < len(lines) && strings.TrimSpace(lines[j]) == "" {
				j++
			}
		}
		if rr.sites[0] > rr.sites[1] {
			rr.sites[0], rr.sites[1] = rr.sites[1], rr.sites[0]
		}
		end := i + 60
		if end > len(lines) {
			end = len(lines)
		}
		rr.text = strings.Join(lines[i:end], "\n")
		out = append(out, rr)
	}
	return out
}

var reSUTCall = regexp.MustCompile(`\b(srv|dir|mux|w|r|conn|tc|x|b|entry|c\.srv|d\.d)\.([A-Z]\w*)\(`)

// harnessCallee returns the API of the system under test called on the given
// harness source line ("" if the line does not call into it).
func harnessCallee(srcDir, loc string) string {
	k := strings.LastIndex(loc, ":")
	if k < 0 {
		return ""
	}
	file, lineS := loc[:k], loc[k+1:]
	n, _ := strconv.Atoi(lineS)
	if !strings.Contains(file, "verifsim/sim/") {
		return ""
	}
	b, err := os.ReadFile(filepath.Join(srcDir, "h/sim", filepath.Base(file)))
	if err != nil {
		return ""
	}
	ls := strings.Split(string(b), "\n")
	if n < 1 || n > len(ls) {
		return ""
	}
	if m := reSUTCall.FindStringSubmatch(ls[n-1]); m != nil {
		return m[1] + "." + m[2]
	}
	return ""
}

type batch struct {
	prop, tier string
	seed       uint64
	info       propInfo
	dir        string
	worker     string
	nWorkers   int
	wallS      float64

	mu       sync.Mutex
	results  []*RunResult // runs with violations / harness errors / leaks
	sums     []*WorkerSummary
	crashes  []crash
	watchdog int
	exits    int
	races    []raceReport
}

func (b *batch) runWorker(j int, cfg WorkerCfg) (stderr string, code int) {
	raw, _ := json.Marshal(cfg)
	cmd := exec.Command(b.worker, "-test.run", "^TestWorker$", "-test.timeout", "0")
	cmd.Env = append(env(), "VERIF_WORKER="+string(raw), "GOMAXPROCS=2", "GORACE=halt_on_error=0 exitcode=0")
	var eb bytes.Buffer
	cmd.Stderr = &eb
	cmd.Stdout = &eb
	err := cmd.Run()
	code = 0
	if err != nil {
		code = 1
		if ee, ok := err.(*exec.ExitError); ok {
			code = ee.ExitCode()
		}
	}
	return eb.String(), code
}

func readOut(path string) (runs []*RunResult, sums []*WorkerSummary, lastStart int) {
	lastStart = -1
	f, err := os.Open(path)
	if err != nil {
		return
	}
	defer f.Close()
	sc := bufio.NewScanner(f)
	sc.Buffer(make([]byte, 1<<20), 1<<28)
	for sc.Scan() {
		var r RunResult
		if json.Unmarshal(sc.Bytes(), &r) != nil {
			continue
		}
		switch r.Type {
		case "start":
			lastStart = r.I
		case "run":
			rr := r
			runs = append(runs, &rr)
		case "summary":
			sums = append(sums, r.Summary)
		}
	}
	return
}

// explore runs the seeded search on every core.
func (b *batch) explore() {
	var wg sync.WaitGroup
	deadline := time.Now().Add(time.Duration(b.wallS * float64(time.Second)))
	for j := 0; j < b.nWorkers; j++ {
		wg.Add(1)
		go func(j int) {
			defer wg.Done()
			from := j
			restarts := 0
			for {
				left := time.Until(deadline).Seconds()
				if left <= 0.5 {
					return
				}
				out := fmt.Sprintf("%s/out-%d-%d.jsonl", b.dir, j, restarts)
				os.Remove(out)
				cfg := WorkerCfg{Prop: b.prop, Tier: b.tier, Seed: b.seed, From: from, Stride: b.nWorkers, Count: b.info.maxRuns, Out: out, Lean: b.info.lean, WallS: left}
				if j == 0 && restarts == 0 {
					cfg.Samples = 3
				}
				stderr, code := b.runWorker(j, cfg)
				runs, sums, last := readOut(out)
				b.mu.Lock()
				b.results = append(b.results, runs...)
				b.sums = append(b.sums, sums...)
				b.mu.Unlock()
				if b.info.race {
					rr := parseRaces(stderr, b.dir)
					b.mu.Lock()
					b.races = append(b.races, rr...)
					b.mu.Unlock()
				}
				if len(sums) > 0 && sums[len(sums)-1].Final {
					return
				}
				c := parseCrash(stderr)
				c.I = last
				b.mu.Lock()
				switch c.Kind {
				case "watchdog":
					b.watchdog++
					if d := os.Getenv("VERIF_KEEP_WATCHDOG"); d != "" {
						os.WriteFile(fmt.Sprintf("%s/watchdog-%d-%d.txt", d, j, last), []byte(stderr), 0o644)
					}
				case "exit":
					if code == 4 {
						break // livelock in gldap: the worker wrote the violation itself
					}
					b.exits++
					fmt.Fprintf(os.Stderr, "verif: worker %d exited with code %d: %s\n", j, code, c.Text)
				default:
					b.crashes = append(b.crashes, c)
				}
				b.mu.Unlock()
				if last < 0 {
					return
				}
				// partial statistics of the dead worker are lost; carry on after the fatal seed
				from = last + b.nWorkers
				restarts++
				if restarts > 5000 {
					return
				}
			}
		}(j)
	}
	wg.Wait()
}

// replayOnce runs one choice trace in a fresh process and reports the
// violations (including a worker death) it produces.
func replayOnce(worker, dir, prop, tier string, lean bool, trace []uint32, tag string, verbose bool) (ids map[string]Violation, res *RunResult, cr *crash) {
	out := fmt.Sprintf("%s/replay-%s.jsonl", dir, tag)
	os.Remove(out)
	cfg := WorkerCfg{Prop: prop, Tier: tier, Count: 1, Out: out, Replay: trace, IsReplay: true, Lean: lean, Verbose: verbose}
	b := &batch{worker: worker}
	stderr, code := b.runWorker(0, cfg)
	runs, _, _ := readOut(out)
	os.Remove(out)
	ids = map[string]Violation{}
	if len(runs) > 0 {
		res = runs[0]
		for _, v := range res.Viol {
			ids[v.ID()] = v
		}
	}
	if code != 0 {
		c := parseCrash(stderr)
		cr = &c
		if v, ok := crashViolation(prop, c); ok {
			ids[v.ID()] = v
		}
	}
	return
}

// crashViolation turns a worker death into a violation of the property under
// check, if that property is about it (C07: the process must survive; C02:
// decoding must not panic even with recovery disabled).
func crashViolation(prop string, c crash) (Violation, bool) {
	if c.Kind != "panic" && c.Kind != "fatal" {
		return Violation{}, false
	}
	switch prop {
	case "C07":
		what := "gldap"
		if c.Handler {
			what = "handler"
		}
		return Violation{Property: "C07", Rule: "alive", Key: fmt.Sprintf("process-died panic-in=%s goroutine=%s", what, c.Gor),
			Detail: fmt.Sprintf("the server process died: %s (first frame %s, goroutine created by %s)", c.Text, c.Site, c.Gor)}, true
	case "C02":
		if c.InSUT {
			return Violation{Property: "C02", Rule: "crash", Key: c.Site, Detail: fmt.Sprintf("decoding panicked with recovery disabled: %s at %s", c.Text, c.Site)}, true
		}
	}
	return Violation{}, false
}

// minimise shrinks a choice trace by delta debugging while the same
// violation (property, rule, key) recurs.
func minimise(worker, dir, prop, tier string, lean bool, trace []uint32, id string, budget time.Duration) []uint32 {
	deadline := time.Now().Add(budget)
	test := func(cands [][]uint32) int {
		// evaluate candidates in parallel, return the first (in order) that still fails
		res := make([]bool, len(cands))
		var wg sync.WaitGroup
		sem := make(chan struct{}, runtime.NumCPU())
		for i := range cands {
			wg.Add(1)
			go func(i int) {
				defer wg.Done()
				sem <- struct{}{}
				defer func() { <-sem }()
				ids, _, _ := replayOnce(worker, dir, prop, tier, lean, cands[i], fmt.Sprintf("m%d", i), false)
				_, res[i] = ids[id]
			}(i)
		}
		wg.Wait()
		for i, ok := range res {
			if ok {
				return i
			}
		}
		return -1
	}
	// trailing choices that were never consumed do not matter; start by truncation
	cur := append([]uint32(nil), trace...)
	n := 2
	for len(cur) > 0 && time.Now().Before(deadline) {
		chunk := (len(cur) + n - 1) / n
		var cands [][]uint32
		for s := 0; s < len(cur); s += chunk {
			e := s + chunk
			if e > len(cur) {
				e = len(cur)
			}
			c := append(append([]uint32(nil), cur[:s]...), cur[e:]...)
			cands = append(cands, c)
		}
		if k := test(cands); k >= 0 {
			cur = cands[k]
			if n > 2 {
				n--
			}
			continue
		}
		if chunk == 1 {
			break
		}
		n *= 2
		if n > len(cur) {
			n = len(cur)
		}
	}
	// zero / halve single values
	for pass := 0; pass < 3 && time.Now().Before(deadline); pass++ {
		changed := false
		for s := 0; s < len(cur) && time.Now().Before(deadline); s += 16 {
			var cands [][]uint32
			var idx []int
			for i := s; i < s+16 && i < len(cur); i++ {
				if cur[i] == 0 {
					continue
				}
				c := append([]uint32(nil), cur...)
				if pass == 0 {
					c[i] = 0
				} else {
					c[i] = cur[i] / 2
				}
				cands = append(cands, c)
				idx = append(idx, i)
			}
			if len(cands) == 0 {
				continue
			}
			// apply every individually successful change that also succeeds jointly
			if k := test(cands); k >= 0 {
				cur = cands[k]
				changed = true
			}
			_ = idx
		}
		if !changed {
			break
		}
	}
	for len(cur) > 0 && cur[len(cur)-1] == 0 {
		cur = cur[:len(cur)-1]
	}
	return cur
}

func loadFindings() []Finding {
	var f struct {
		Findings []Finding `json:"findings"`
	}
	b, err := os.ReadFile(verifDir + "/known_findings.json")
	if err != nil {
		return nil
	}
	if err := json.Unmarshal(b, &f); err != nil {
		die(2, "known_findings.json: %v", err)
	}
	return f.Findings
}

type ReplayFile struct {
	Mode     string   `json:"mode"` // trace (choice trace) | seed (re-run the run index of the seed: worker deaths and race reports)
	Property string   `json:"property"`
	Rule     string   `json:"rule"`
	Key      string   `json:"key"`
	Check    string   `json:"check"`
	Tier     string   `json:"tier"`
	Lean     bool     `json:"lean"`
	Race     bool     `json:"race"`
	Seed     uint64   `json:"seed"`
	Run      int      `json:"run"`
	Detail   string   `json:"detail"`
	Config   string   `json:"config"`
	Choices  []uint32 `json:"choices"`
	Trace    []string `json:"trace"`
}

func check(prop, tier string, seed uint64) int {
	info, ok := props[prop]
	if !ok {
		die(2, "unknown property %s", prop)
	}
	t0 := time.Now()
	tag := prop + "-" + tier
	dir, worker := prepare(tag, info.race)
	defer os.RemoveAll(dir)
	b := &batch{prop: prop, tier: tier, seed: seed, info: info, dir: dir, worker: worker, nWorkers: runtime.NumCPU()}
	b.wallS = info.quickS
	if tier == "thorough" {
		b.wallS = info.thorS
	}
	if s := os.Getenv("VERIF_WALL_S"); s != "" {
		b.wallS, _ = strconv.ParseFloat(s, 64)
	}
	b.explore()

	// ---- collect
	total := &WorkerSummary{Probes: map[string]int{}, Faults: map[string]int{}}
	sigs := map[string]bool{}
	var samples []interface{}
	for _, s := range b.sums {
		total.Runs += s.Runs
		total.Steps += s.Steps
		total.SimTimeMS += s.SimTimeMS
		total.StepCaps += s.StepCaps
		total.Leaks += s.Leaks
		for k, v := range s.Probes {
			if strings.HasSuffix(k, "-total") {
				total.Probes[k] = v
				continue
			}
			total.Probes[k] += v
		}
		for k, v := range s.Faults {
			total.Faults[k] += v
		}
		for _, x := range s.Sigs {
			sigs[x] = true
		}
		samples = append(samples, s.Samples...)
	}
	type occ struct {
		v     Violation
		r     *RunResult
		crash *crash
		n     int
	}
	byID := map[string]*occ{}
	others := map[string]int{}
	harness := 0
	for _, r := range b.results {
		if r.Harness != "" {
			harness++
			fmt.Fprintf(os.Stderr, "verif: harness error in run %d: %s\n", r.I, firstLines(r.Harness, 12))
		}
		for _, v := range r.Viol {
			if v.Property != prop {
				others[v.Property]++
				continue
			}
			o := byID[v.ID()]
			if o == nil {
				o = &occ{v: v, r: r}
				byID[v.ID()] = o
			} else if len(r.Choices) < len(o.r.Choices) {
				o.r = r
			}
			o.n++
		}
	}
	raceNoise := 0
	raceByID := map[string]*raceReport{}
	for i := range b.races {
		rr := &b.races[i]
		if rr.noise {
			raceNoise++
			continue
		}
		v := Violation{Property: "C15", Rule: "race", Key: rr.sites[0] + " <-> " + rr.sites[1], Detail: firstLines(rr.text, 40)}
		if prop != "C15" {
			others["C15"]++
			continue
		}
		o := byID[v.ID()]
		if o == nil {
			o = &occ{v: v}
			byID[v.ID()] = o
			raceByID[v.ID()] = rr
		}
		o.n++
	}
	sutCrashes := 0
	for i := range b.crashes {
		c := b.crashes[i]
		if v, ok := crashViolation(prop, c); ok {
			o := byID[v.ID()]
			if o == nil {
				o = &occ{v: v, crash: &b.crashes[i]}
				byID[v.ID()] = o
			}
			o.n++
		} else {
			sutCrashes++
		}
	}
	findings := loadFindings()
	known := func(v Violation) *Finding {
		for i, f := range findings {
			if f.Status == "open" && f.Property == v.Property && f.Rule == v.Rule && f.Key == v.Key {
				return &findings[i]
			}
		}
		return nil
	}
	var ids []string
	for id := range byID {
		ids = append(ids, id)
	}
	sort.Strings(ids)
	exit := 0
	knownSeen := map[string]int{}
	nViol := 0
	minimised := 0
	for _, id := range ids {
		o := byID[id]
		if f := known(o.v); f != nil {
			fmt.Printf("KNOWN-FINDING: property=%s %s %s: %s (seen in %d runs)\n", prop, o.v.Rule, o.v.Key, f.What, o.n)
			knownSeen[id] = o.n
			continue
		}
		nViol++
		if rr := raceByID[id]; rr != nil {
			path := reportRace(b, o.v, rr)
			fmt.Printf("VIOLATION property=%s replay=%s\n", prop, path)
			fmt.Printf("  %s %s (seen %d times)\n", o.v.Rule, o.v.Key, o.n)
			exit = 1
			continue
		}
		path := reportViolation(b, o.v, o.r, o.crash, minimised < 3)
		minimised++
		fmt.Printf("VIOLATION property=%s replay=%s\n", prop, path)
		fmt.Printf("  %s %s: %s\n", o.v.Rule, o.v.Key, o.v.Detail)
		exit = 1
	}

	// ---- evidence
	wall := time.Since(t0).Seconds()
	simWall := b.wallS
	ev := map[string]interface{}{
		"property_id": prop, "tier": tier, "seed": seed, "level": info.level, "wall_s": wall, "violations": nViol,
		"assumptions": []string{
			"the simulated TCP transport (port table, listener, byte pipes, receive window, FIN/RST, deadlines) stands in for the kernel; behaviour only a real socket has cannot be observed",
			"interleavings are explored at synchronisation operations and I/O (before lock acquisition, at goroutine start, after WaitGroup/channel wake-ups, at socket reads and writes) and at per-run random subsets of preemption points (function entries; immediately before unlocks, atomics, WaitGroup, Pool, Once, Cond and context operations), not at individual memory accesses",
			"gldap is compiled with go1.26.8 for the simulation (testing/synctest); the repository's own suite runs on the default toolchain",
			"a clean batch is evidence, not proof: schedules and inputs are sampled from the seed",
		},
	}
	if len(samples) == 0 {
		samples = []interface{}{"no sample recorded: worker 0 did not finish its first runs"}
	}
	cov := map[string]interface{}{
		"evaluations":                   total.Runs,
		"distinct_nontrivial":           len(sigs),
		"rule":                          info.rule,
		"samples":                       samples,
		"exhaustive":                    false,
		"scheduler_steps":               total.Steps,
		"simulated_time_s":              total.SimTimeMS / 1000,
		"runs_per_hour":                 int(float64(total.Runs) / maxf(simWall, 1) * 3600),
		"seeds":                         fmt.Sprintf("VERIF_SEED=%d, run i uses the i-th derived seed; %d runs", seed, total.Runs),
		"faults_fired":                  total.Faults,
		"reach_probes":                  total.Probes,
		"inconclusive_step_cap":         total.StepCaps,
		"goroutine_leaks_at_bubble_end": total.Leaks,
		"known_findings_seen":           knownSeen,
		"violations_of_other_properties_seen_not_judged_here": others,
		"worker_deaths_not_judged_here":                       sutCrashes,
		"worker_watchdog_kills":                               b.watchdog,
		"harness_errors":                                      harness,
		"real_code":                                           "github.com/jimlambrt/gldap and testdirectory from /repo's working tree (with spliced yield points), asn1-ber, go-ldap, bufio, crypto/tls, context, sync",
		"stubs":                                               "TCP (listener, sockets, port table), clock (testing/synctest), crypto/rand (seeded), logger, handlers, OnClose callback",
		"race_detector":                                       info.race,
		"race_reports_total":                                  len(b.races),
		"race_reports_discarded_as_harness_noise":             raceNoise,
	}
	if prop == "C02" {
		blocks, done := total.Probes["C02-single-point-blocks-total"], total.Probes["C02-single-point-block"]
		cov["single_point_mutation_blocks"] = blocks
		cov["single_point_mutation_blocks_run"] = done
		cov["exhaustive"] = blocks > 0 && done >= blocks
		cov["explanation"] = "exhaustive refers to the single-point mutation space only (every node of every canonical request x every mutation kind); double mutations and byte damage beyond it are sampled"
	}
	ev["coverage"] = cov
	// the evidence directory describes checks of /repo itself: a run that the
	// sensitivity tooling pointed at a scratch tree (VERIF_REPO) writes its
	// record next to that tree's scratch copies instead
	evDir := verifDir + "/evidence"
	if os.Getenv("VERIF_REPO") != "" {
		evDir = os.TempDir() + "/gldap-verif/evidence-of-scratch-trees"
	}
	os.MkdirAll(evDir, 0o755)
	eb, _ := json.MarshalIndent(ev, "", " ")
	if err := os.WriteFile(fmt.Sprintf("%s/%s.json", evDir, prop), eb, 0o644); err != nil {
		die(2, "%v", err)
	}
	fmt.Printf("verif: %s %s: %d runs, %d distinct non-trivial schedules, %d steps, %d violation classes (%d known), %.1fs\n",
		prop, tier, total.Runs, len(sigs), total.Steps, len(ids), len(knownSeen), wall)
	if exit == 0 && (total.Runs == 0 || harness > 0 || (b.watchdog > 0 && total.Runs < 10) || len(sigs) < 2) {
		fmt.Fprintf(os.Stderr, "verif: nothing (or too little) was explored: runs=%d harness_errors=%d watchdog=%d distinct=%d\n", total.Runs, harness, b.watchdog, len(sigs))
		return 2
	}
	return exit
}

func maxf(a, b float64) float64 {
	if a > b {
		return a
	}
	return b
}

func firstLines(s string, n int) string {
	l := strings.Split(s, "\n")
	if len(l) > n {
		l = l[:n]
	}
	return strings.Join(l, "\n")
}

// reportViolation minimises the trace, verifies the replay in a fresh process
// and writes the replay file.
func reportViolation(b *batch, v Violation, r *RunResult, c *crash, doMin bool) string {
	os.MkdirAll(verifDir+"/replays", 0o755)
	h := sha256.Sum256([]byte(v.ID()))
	path := fmt.Sprintf("%s/replays/%s-%x.json", verifDir, v.Property, h[:5])
	rf := ReplayFile{Mode: "trace", Property: v.Property, Rule: v.Rule, Key: v.Key, Check: b.prop, Tier: b.tier, Lean: b.info.lean, Race: b.info.race, Seed: b.seed, Detail: v.Detail}
	var trace []uint32
	if r != nil {
		trace = r.Choices
		rf.Run = r.I
		rf.Config = r.Config
	} else if c != nil {
		// a worker death: re-run the fatal seed alone to obtain its choice trace
		rf.Run = c.I
		trace = nil
	}
	if r != nil && len(trace) > 0 {
		// the recorded trace must reproduce before anything is reported
		ids, _, _ := replayOnce(b.worker, b.dir, b.prop, b.tier, b.info.lean, trace, "v0", false)
		if _, ok := ids[v.ID()]; !ok {
			fmt.Fprintf(os.Stderr, "verif: WARNING: the recorded trace of run %d did not reproduce %s in a fresh process (determinism defect in the harness)\n", r.I, v.ID())
		} else if doMin {
			budget := 60.0
			if x := os.Getenv("VERIF_MIN_S"); x != "" {
				budget, _ = strconv.ParseFloat(x, 64)
			}
			trace = minimise(b.worker, b.dir, b.prop, b.tier, b.info.lean, trace, v.ID(), time.Duration(budget*float64(time.Second)))
		}
		ids, res, _ := replayOnce(b.worker, b.dir, b.prop, b.tier, b.info.lean, trace, "v1", true)
		if vv, ok := ids[v.ID()]; ok {
			rf.Detail = vv.Detail
		}
		if res != nil {
			rf.Trace = res.Trace
			rf.Config = res.Config
		}
	}
	if (c != nil && r == nil) || (r != nil && len(r.Choices) == 0) {
		rf.Mode = "seed" // worker death or livelock: no choice trace, replay by (seed, run index)
	}
	if c != nil {
		rf.Trace = append(rf.Trace, "worker death: "+c.Text, "first frame: "+c.Site, "goroutine created by: "+c.Gor)
	}
	rf.Choices = trace
	out, _ := json.MarshalIndent(rf, "", " ")
	os.WriteFile(path, out, 0o644)
	return path
}

// reportRace writes the replay file of a race report: the run is identified by
// (seed, run index); replaying it re-runs that one simulated execution in the
// race build and looks for the same pair of access sites.
func reportRace(b *batch, v Violation, rr *raceReport) string {
	os.MkdirAll(verifDir+"/replays", 0o755)
	h := sha256.Sum256([]byte(v.ID()))
	path := fmt.Sprintf("%s/replays/%s-%x.json", verifDir, v.Property, h[:5])
	rf := ReplayFile{Mode: "seed", Property: v.Property, Rule: v.Rule, Key: v.Key, Check: b.prop, Tier: b.tier, Lean: b.info.lean, Race: true, Seed: b.seed, Run: rr.run, Detail: v.Detail,
		Trace: strings.Split(rr.text, "\n")}
	out, _ := json.MarshalIndent(rf, "", " ")
	os.WriteFile(path, out, 0o644)
	return path
}

func replay(path string) int {
	raw, err := os.ReadFile(path)
	if err != nil {
		die(2, "%v", err)
	}
	var rf ReplayFile
	if err := json.Unmarshal(raw, &rf); err != nil {
		die(2, "%v", err)
	}
	dir, worker := prepare("replay-"+rf.Property, rf.Race)
	defer os.RemoveAll(dir)
	id := rf.Property + " " + rf.Rule + " " + rf.Key
	var ids map[string]Violation
	var res *RunResult
	if rf.Mode == "seed" || (len(rf.Choices) == 0 && rf.Run >= 0 && strings.Contains(strings.Join(rf.Trace, "\n"), "worker death")) {
		// replay of a fatal seed: run it alone
		out := dir + "/replay-seed.jsonl"
		b := &batch{worker: worker}
		stderr, code := b.runWorker(0, WorkerCfg{Prop: rf.Check, Tier: rf.Tier, Seed: rf.Seed, From: rf.Run, Count: 1, Stride: 1, Out: out, Lean: rf.Lean})
		ids = map[string]Violation{}
		if code != 0 {
			if v, ok := crashViolation(rf.Check, parseCrash(stderr)); ok {
				ids[v.ID()] = v
			}
		}
		if runs, _, _ := readOut(out); len(runs) > 0 {
			for _, r := range runs {
				for _, v := range r.Viol {
					ids[v.ID()] = v
				}
			}
		}
		if rf.Race {
			for _, rr := range parseRaces(stderr, dir) {
				if !rr.noise {
					v := Violation{Property: "C15", Rule: "race", Key: rr.sites[0] + " <-> " + rr.sites[1], Detail: firstLines(rr.text, 40)}
					ids[v.ID()] = v
				}
			}
		}
	} else {
		ids, res, _ = replayOnce(worker, dir, rf.Check, rf.Tier, rf.Lean, rf.Choices, "r", true)
	}
	if res != nil {
		for _, l := range res.Trace {
			fmt.Println(l)
		}
	}
	if v, ok := ids[id]; ok {
		fmt.Printf("VIOLATION property=%s replay=%s\n  %s %s: %s\n", rf.Property, path, v.Rule, v.Key, v.Detail)
		return 1
	}
	fmt.Printf("verif: %s did not recur on the current tree\n", id)
	return 0
}

func main() {
	if len(os.Args) < 2 {
		die(2, "usage: verif check <property> [quick|thorough] | replay <file> | selftest <name>")
	}
	tier := os.Getenv("VERIF_TIER")
	if tier == "" {
		tier = "quick"
	}
	seed := uint64(20261004)
	if s := os.Getenv("VERIF_SEED"); s != "" {
		if n, err := strconv.ParseUint(s, 10, 64); err == nil {
			seed = n
		} else if n, err := strconv.ParseInt(s, 10, 64); err == nil {
			seed = uint64(n)
		}
	}
	switch os.Args[1] {
	case "check":
		if len(os.Args) < 3 {
			die(2, "usage: verif check <property> [quick|thorough]")
		}
		if len(os.Args) > 3 {
			tier = os.Args[3]
		}
		if tier != "quick" && tier != "thorough" {
			die(2, "tier must be quick or thorough")
		}
		os.Exit(check(os.Args[2], tier, seed))
	case "replay":
		if len(os.Args) < 3 {
			die(2, "usage: verif replay <file>")
		}
		os.Exit(replay(os.Args[2]))
	case "selftest":
		os.Exit(selftest(os.Args[2:]))
	case "warm":
		d1, _ := prepare("warm", false)
		os.RemoveAll(d1)
		d2, _ := prepare("warm-race", true)
		os.RemoveAll(d2)
	default:
		die(2, "unknown command %s", os.Args[1])
	}
}
