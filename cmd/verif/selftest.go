package main

import (
	"bytes"
	"encoding/json"
	"fmt"
	"os"
	"os/exec"
	"strings"
	"sync"
)

// selftest determinism [props...]: every (property, seed) is run in several
// fresh processes at GOMAXPROCS 1, 4 and 16; the full event logs, violations,
// choice traces and schedule signatures must be byte-identical.
//
// selftest inert: the repository's own tests must pass on the instrumented
// copy with no simulator installed (splicing changes no behaviour).
func selftest(args []string) int {
	if len(args) == 0 {
		die(2, "usage: verif selftest determinism [props...] | inert")
	}
	switch args[0] {
	case "determinism":
		return selftestDeterminism(args[1:])
	case "inert":
		return selftestInert()
	}
	die(2, "unknown selftest %s", args[0])
	return 2
}

func canonical(path string) string {
	runs, _, _ := readOut(path)
	var b bytes.Buffer
	for _, r := range runs {
		r.Trace = nil
		x, _ := json.Marshal(r)
		b.Write(x)
		b.WriteByte('\n')
	}
	return b.String()
}

func selftestDeterminism(plist []string) int {
	if len(plist) == 0 {
		for p := range props {
			if p != "C16" {
				plist = append(plist, p)
			}
		}
	}
	nSeeds := 30
	if s := os.Getenv("VERIF_SELFTEST_SEEDS"); s != "" {
		fmt.Sscan(s, &nSeeds)
	}
	bad := 0
	for _, race := range []bool{false, true} {
		if race && os.Getenv("VERIF_SELFTEST_RACE") == "" {
			continue
		}
		dir, worker := prepare(fmt.Sprintf("selftest-race%v", race), race)
		type job struct {
			prop string
			gmp  string
			rep  int
		}
		var mu sync.Mutex
		outs := map[string]map[string]string{} // prop -> variant -> canonical log
		var wg sync.WaitGroup
		sem := make(chan struct{}, 16)
		for _, p := range plist {
			outs[p] = map[string]string{}
			for _, gmp := range []string{"1", "4", "16"} {
				for rep := 0; rep < 2; rep++ {
					wg.Add(1)
					go func(p, gmp string, rep int) {
						defer wg.Done()
						sem <- struct{}{}
						defer func() { <-sem }()
						out := fmt.Sprintf("%s/det-%s-%s-%d.jsonl", dir, p, gmp, rep)
						os.Remove(out)
						cfg := WorkerCfg{Prop: p, Tier: "quick", Seed: 777, From: 0, Stride: 1, Count: nSeeds, Out: out, EventLog: true, Lean: race}
						raw, _ := json.Marshal(cfg)
						cmd := exec.Command(worker, "-test.run", "^TestWorker$", "-test.timeout", "0")
						cmd.Env = append(env(), "VERIF_WORKER="+string(raw), "GOMAXPROCS="+gmp, "GORACE=halt_on_error=0 exitcode=0 log_path="+out+".race")
						cmd.Run() // a worker death is part of the (deterministic) behaviour
						mu.Lock()
						outs[p][fmt.Sprintf("gomaxprocs=%s rep=%d", gmp, rep)] = canonical(out)
						mu.Unlock()
					}(p, gmp, rep)
				}
			}
		}
		wg.Wait()
		for _, p := range plist {
			var ref, refName string
			for name, log := range outs[p] {
				if refName == "" || name < refName {
					ref, refName = log, name
				}
			}
			ok := true
			for name, log := range outs[p] {
				if log != ref {
					ok = false
					bad++
					a, b := strings.Split(ref, "\n"), strings.Split(log, "\n")
					for i := range a {
						if i >= len(b) || a[i] != b[i] {
							fmt.Printf("DIVERGENCE %s race=%v: %s vs %s differ at run line %d\n", p, race, refName, name, i)
							break
						}
					}
				}
			}
			if ok {
				fmt.Printf("deterministic: %s race=%v: %d seeds x %d processes identical (%d bytes of event log)\n", p, race, nSeeds, len(outs[p]), len(ref))
			}
		}
		os.RemoveAll(dir)
	}
	if bad > 0 {
		return 2
	}
	return 0
}

func selftestInert() int {
	dir, _ := prepare("selftest-inert", false)
	defer os.RemoveAll(dir)
	cmd := exec.Command("go", "test", "-vet=off", "-count=1", "-json", "./...")
	cmd.Dir = dir + "/repo"
	cmd.Env = append(os.Environ(), "GOFLAGS=-mod=mod", "GOPROXY=off", "GOSUMDB=off")
	out, _ := cmd.Output()
	pass, fail := 0, 0
	for _, l := range strings.Split(string(out), "\n") {
		var e struct{ Action, Test string }
		if json.Unmarshal([]byte(l), &e) != nil || e.Test == "" {
			continue
		}
		switch e.Action {
		case "pass":
			pass++
		case "fail":
			fail++
			fmt.Println("FAIL", e.Test)
		}
	}
	fmt.Printf("inert baseline on the instrumented copy: %d passed, %d failed\n", pass, fail)
	if fail > 0 || pass < 306 {
		return 2
	}
	return 0
}
