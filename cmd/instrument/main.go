// Command instrument splices simulator yield points into a scratch copy of
// the gldap sources (DESIGN.md 2.2). It never touches /repo: it is given the
// root of a copy. Every splice stays on the source line it belongs to, so
// line numbers in panics and race reports are those of /repo.
package main

import (
	"encoding/json"
	"fmt"
	"go/ast"
	"go/parser"
	"go/token"
	"os"
	"path/filepath"
	"sort"
	"strings"
)

type edit struct {
	off  int // byte offset
	end  int // == off for pure insertion
	text string
	ord  int
}

type site struct {
	Site string `json:"site"`
	Kind string `json:"kind"`
}

var (
	sites   []site
	modPath string
)

func main() {
	if len(os.Args) != 2 {
		fmt.Fprintln(os.Stderr, "usage: instrument <copy-of-repo-root>")
		os.Exit(2)
	}
	root := os.Args[1]
	gm, err := os.ReadFile(filepath.Join(root, "go.mod"))
	if err != nil {
		fatal(err)
	}
	for _, l := range strings.Split(string(gm), "\n") {
		if strings.HasPrefix(l, "module ") {
			modPath = strings.TrimSpace(strings.TrimPrefix(l, "module "))
		}
	}
	if modPath == "" {
		fatal(fmt.Errorf("no module line in go.mod"))
	}
	skip := map[string]bool{"simrt": true, "examples": true, "tools": true, "coverage": true, ".git": true, "vendor": true}
	err = filepath.Walk(root, func(p string, fi os.FileInfo, err error) error {
		if err != nil {
			return err
		}
		if fi.IsDir() {
			if p != root && skip[fi.Name()] {
				return filepath.SkipDir
			}
			return nil
		}
		if !strings.HasSuffix(p, ".go") || strings.HasSuffix(p, "_test.go") {
			return nil
		}
		rel, _ := filepath.Rel(root, p)
		return instrumentFile(p, rel)
	})
	if err != nil {
		fatal(err)
	}
	out, _ := json.MarshalIndent(sites, "", " ")
	if err := os.WriteFile(filepath.Join(root, "simrt_sites.json"), out, 0o644); err != nil {
		fatal(err)
	}
	fmt.Printf("instrument: %d sites\n", len(sites))
}

func fatal(err error) {
	fmt.Fprintln(os.Stderr, "instrument:", err)
	os.Exit(2)
}

type inst struct {
	fset  *token.FileSet
	src   []byte
	rel   string
	edits []edit
	n     int
}

func (in *inst) off(p token.Pos) int { return in.fset.Position(p).Offset }
func (in *inst) text(a, b token.Pos) string {
	return string(in.src[in.off(a):in.off(b)])
}
func (in *inst) ins(at int, s string) {
	in.edits = append(in.edits, edit{off: at, end: at, text: s, ord: len(in.edits)})
}
func (in *inst) repl(a, b int, s string) {
	in.edits = append(in.edits, edit{off: a, end: b, text: s, ord: len(in.edits)})
}
func (in *inst) site(p token.Pos, kind string) string {
	pos := in.fset.Position(p)
	s := fmt.Sprintf("%s:%d", in.rel, pos.Line)
	// several sites on one line get a column suffix
	for _, x := range sites {
		if x.Site == s {
			s = fmt.Sprintf("%s:%d.%d", in.rel, pos.Line, pos.Column)
			break
		}
	}
	sites = append(sites, site{Site: s, Kind: kind})
	return fmt.Sprintf("%q", s)
}

func instrumentFile(path, rel string) error {
	src, err := os.ReadFile(path)
	if err != nil {
		return err
	}
	fset := token.NewFileSet()
	f, err := parser.ParseFile(fset, path, src, parser.SkipObjectResolution)
	if err != nil {
		return err
	}
	in := &inst{fset: fset, src: src, rel: rel}
	usesNetElsewhere := false
	replacedListen := false
	ast.Inspect(f, func(n ast.Node) bool {
		switch x := n.(type) {
		case *ast.BlockStmt:
			in.list(x.List)
		case *ast.CaseClause:
			in.list(x.Body)
		case *ast.CommClause:
			in.list(x.Body)
		case *ast.SelectorExpr:
			if id, ok := x.X.(*ast.Ident); ok && id.Name == "net" {
				if x.Sel.Name == "Listen" {
					in.repl(in.off(x.Pos()), in.off(x.End()), "simrt.Listen")
					sites = append(sites, site{Site: fmt.Sprintf("%s:%d", rel, fset.Position(x.Pos()).Line), Kind: "listen"})
					replacedListen = true
				} else {
					usesNetElsewhere = true
				}
			}
		}
		return true
	})
	if len(in.edits) == 0 {
		return nil
	}
	// import, on the package clause's own line
	in.ins(in.off(f.Name.End()), fmt.Sprintf("; import simrt %q", modPath+"/simrt"))
	sort.SliceStable(in.edits, func(i, j int) bool {
		if in.edits[i].off != in.edits[j].off {
			return in.edits[i].off > in.edits[j].off
		}
		return in.edits[i].ord > in.edits[j].ord
	})
	out := append([]byte(nil), src...)
	for _, e := range in.edits {
		out = append(out[:e.off], append([]byte(e.text), out[e.end:]...)...)
	}
	if replacedListen && !usesNetElsewhere {
		out = append(out, []byte("\nvar _ net.Addr\n")...)
	}
	return os.WriteFile(path, out, 0o644)
}

func isCall(e ast.Expr, names ...string) (*ast.CallExpr, *ast.SelectorExpr, bool) {
	c, ok := e.(*ast.CallExpr)
	if !ok {
		return nil, nil, false
	}
	s, ok := c.Fun.(*ast.SelectorExpr)
	if !ok {
		return nil, nil, false
	}
	for _, n := range names {
		if s.Sel.Name == n {
			return c, s, true
		}
	}
	return nil, nil, false
}

// addressable reports whether &e is certainly legal (identifiers, field
// selections, dereferences). Anything else (call results, map elements) is
// left without a yield point rather than risking a copy that does not build.
func addressable(e ast.Expr) bool {
	switch x := e.(type) {
	case *ast.Ident:
		return true
	case *ast.SelectorExpr:
		return addressable(x.X)
	case *ast.StarExpr:
		return true
	case *ast.ParenExpr:
		return addressable(x.X)
	}
	return false
}

func isRecv(e ast.Expr) bool {
	for {
		p, ok := e.(*ast.ParenExpr)
		if !ok {
			break
		}
		e = p.X
	}
	u, ok := e.(*ast.UnaryExpr)
	return ok && u.Op == token.ARROW
}

func (in *inst) list(l []ast.Stmt) {
	for _, st := range l {
		for {
			ls, ok := st.(*ast.LabeledStmt)
			if !ok {
				break
			}
			st = ls.Stmt
		}
		switch s := st.(type) {
		case *ast.GoStmt:
			in.goStmt(s)
		case *ast.ExprStmt:
			if c, sel, ok := isCall(s.X, "Lock", "RLock"); ok && len(c.Args) == 0 && addressable(sel.X) {
				x := in.text(sel.X.Pos(), sel.X.End())
				hook := "BeforeLock"
				if sel.Sel.Name == "RLock" {
					hook = "BeforeRLock"
				}
				in.ins(in.off(s.Pos()), fmt.Sprintf("simrt.%s(%s, &%s); ", hook, in.site(s.Pos(), "lock"), x))
			} else if c, _, ok := isCall(s.X, "Wait"); ok && len(c.Args) == 0 {
				in.ins(in.off(s.End()), fmt.Sprintf("; simrt.AfterWake(%s)", in.site(s.Pos(), "wait")))
			} else if c, sel, ok := isCall(s.X, "Sleep"); ok && len(c.Args) == 1 {
				if id, ok := sel.X.(*ast.Ident); ok && id.Name == "time" {
					in.ins(in.off(s.End()), fmt.Sprintf("; simrt.AfterWake(%s)", in.site(s.Pos(), "sleep")))
				}
			} else if isRecv(s.X) {
				in.ins(in.off(s.End()), fmt.Sprintf("; simrt.AfterWake(%s)", in.site(s.Pos(), "recv")))
			}
		case *ast.AssignStmt:
			if len(s.Rhs) == 1 && isRecv(s.Rhs[0]) {
				in.ins(in.off(s.End()), fmt.Sprintf("; simrt.AfterWake(%s)", in.site(s.Pos(), "recv")))
			}
		case *ast.SendStmt:
			in.ins(in.off(s.End()), fmt.Sprintf("; simrt.AfterWake(%s)", in.site(s.Pos(), "send")))
		case *ast.SelectStmt:
			hasDefault := false
			for _, cc := range s.Body.List {
				if cc.(*ast.CommClause).Comm == nil {
					hasDefault = true
				}
			}
			if !hasDefault {
				for _, cc := range s.Body.List {
					c := cc.(*ast.CommClause)
					in.ins(in.off(c.Colon)+1, fmt.Sprintf(" simrt.AfterWake(%s);", in.site(c.Pos(), "select")))
				}
			}
		}
	}
}

func (in *inst) goStmt(g *ast.GoStmt) {
	in.n++
	v := fmt.Sprintf("_simg%d", in.n)
	if fl, ok := g.Call.Fun.(*ast.FuncLit); ok {
		in.ins(in.off(g.Pos()), fmt.Sprintf("%s := simrt.BeforeGo(%s); ", v, in.site(g.Pos(), "go")))
		in.ins(in.off(fl.Body.Lbrace)+1, fmt.Sprintf(" simrt.GoStart(%s);", v))
		return
	}
	// go f(a, b...)  =>  evaluate f and the arguments now, as the go statement does
	lhs := []string{v, v + "f"}
	rhs := []string{fmt.Sprintf("simrt.BeforeGo(%s)", in.site(g.Pos(), "go")), in.text(g.Call.Fun.Pos(), g.Call.Fun.End())}
	var args []string
	for i, a := range g.Call.Args {
		n := fmt.Sprintf("%sa%d", v, i)
		lhs = append(lhs, n)
		rhs = append(rhs, in.text(a.Pos(), a.End()))
		args = append(args, n)
	}
	call := strings.Join(args, ", ")
	if g.Call.Ellipsis.IsValid() {
		call += "..."
	}
	in.repl(in.off(g.Pos()), in.off(g.End()), fmt.Sprintf("%s := %s; go func() { simrt.GoStart(%s); %sf(%s) }()",
		strings.Join(lhs, ", "), strings.Join(rhs, ", "), v, v, call))
}
