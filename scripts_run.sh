#!/bin/bash
# dev helper: scripts_run.sh PROP COUNT [SEED] [extra json fields]
S=/tmp/gldap-verif/dev
rm -f $S/out.jsonl
VERIF_DEBUG_LEAK=$DEBUG_LEAK VERIF_WORKER="{\"prop\":\"$1\",\"tier\":\"${TIER:-quick}\",\"seed\":${3:-1},\"from\":${FROM:-0},\"count\":$2,\"out\":\"$S/out.jsonl\"${4}}" timeout ${TMO:-300} $S/worker -test.run '^TestWorker$' -test.timeout 0 2>&1 | tail -${TAIL:-30}
python3 - <<'EOP'
import json,collections,os
viol=collections.Counter(); ex={}
for l in open('/tmp/gldap-verif/dev/out.jsonl'):
    r=json.loads(l)
    if r['type']=='run':
        if r.get('harness_error'): print('HARNESS', r['i'], r['harness_error'][:3000])
        if r.get('leak'): viol['LEAK '+r['leak'][:60]]+=1
        for v in r.get('viol') or []:
            k=v['property']+' '+v['rule']+' '+v['key']; viol[k]+=1
            ex.setdefault(k,(r['i'],v['detail']))
        if os.environ.get('SHOW') and (r.get('trace')):
            print('RUN',r['i'],r.get('config'))
            for t in r['trace'][:int(os.environ.get('SHOW'))]: print('  ',t)
    elif r['type']=='summary':
        s=r['summary']; s['sigs']=len(s.get('sigs') or []); s['samples']=None
        print(json.dumps(s))
for k,n in sorted(viol.items()): print(n,k,'|',ex.get(k))
EOP
