#!/bin/bash
# dev helper: build the worker into $1 (scratch dir) [race]
set -e
export GOFLAGS=-mod=mod GOPROXY=off GOSUMDB=off GOTOOLCHAIN=local
S=${1:-/tmp/gldap-verif/dev}
RACE=$2
mkdir -p $S
rm -rf $S/repo $S/h
rsync -a --exclude .git ${REPO:-/repo}/ $S/repo/
mkdir -p $S/repo/simrt
cp /verif/simrt/*.go $S/repo/simrt/
cp /verif/simrt/export_gldap.go.txt $S/repo/zz_simexport.go
/tmp/instrument $S/repo
mkdir -p $S/h/sim
cp /verif/sim/*.go $S/h/sim/
cat > $S/h/go.mod <<EOM
module verifsim

go 1.26

require github.com/jimlambrt/gldap v0.0.0
replace github.com/jimlambrt/gldap => $S/repo
EOM
cp /repo/go.sum $S/h/go.sum
cd $S/h && go1.26.8 test -c -trimpath $RACE -o $S/worker ./sim
