module verif

go 1.20
