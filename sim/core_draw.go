package sim

import (
	"bytes"
	"fmt"
	"time"

	"github.com/hashicorp/go-hclog"
)

// profile is the swarm bias for one property: each run still draws its whole
// configuration from the choice source, inside these ranges.
type profile struct {
	maxConns    int
	maxReqs     int
	minReqs     int
	holdAll     bool
	stallPct    int
	longPct     int
	rich        bool
	richResp    bool
	extraFrames int // additional frames a handler may write
	bigPct      int
	endings     []string // drawn uniformly; "" = stay open
	onClose     []int
	stopPct     int // StopMode 1
	stop2Pct    int // StopMode 2 (Stop before Run)
	passiveEnd  bool
	passivePct  int // with Stop: clients do nothing on their own once Stop is invoked (pct of such runs)
	faults      []string
	faultBudget int
	negPct      int
	randomMux   bool
	windowPct   int
	pausePct    int
	timeoutPct  int
	wtimeoutPct int // a write timeout only
	unbindPct   int
	panicPct    int
	lateClient  bool
	readyPoll   bool
	waitAllPct  int
	badAddrPct  int
	busyPortPct int
	tlsPct      int  // the listener is TLS (mode 1 or 2)
	startTLSPct int  // a client upgrades with StartTLS (plain listener only)
	misbehave   bool // C18: clients that do not satisfy the TLS configuration
	exactPct    int  // a handler's last response is padded to a buffer-size boundary
	noTLSRoute  int  // C13: no StartTLS route registered, the default route upgrades (pct)
	again       int  // C13: a further StartTLS request inside the tunnel (pct)
	crowdPct    int  // C18: 9..14 connections, most of them offending
	deepPct     int  // one client pipelines 129..220 requests whose handlers all block
	stormPct    int  // one client's requests all panic, 33..70 of them
	embedPct    int  // C01: with a read timeout, a frame whose value is itself a frame, sent in two parts around the deadline
}

func profileFor(prop, tier string) profile {
	th := tier == "thorough"
	pick := func(q, t int) int {
		if th {
			return t
		}
		return q
	}
	base := profile{maxConns: 3, maxReqs: 6, endings: []string{"", "", "close"}, onClose: []int{0, 1}, stallPct: 20, waitAllPct: 20}
	switch prop {
	case "C01", "C14":
		base.rich, base.negPct, base.maxReqs, base.stallPct = true, 12, pick(8, 16), 10
		base.richResp = prop == "C14"
		base.bigPct = 3
		if prop == "C01" {
			// a read deadline that expires in the middle of a frame
			base.timeoutPct, base.faults, base.faultBudget, base.embedPct = 6, []string{"clock"}, 2, 50
		}
		if prop == "C14" {
			base.extraFrames, base.stallPct = 2, 30
		}
	case "C03":
		base.randomMux, base.maxReqs, base.maxConns = true, pick(8, 14), 3
		base.deepPct = 1
	case "C04":
		base.rich, base.richResp, base.maxReqs, base.extraFrames, base.bigPct = false, true, pick(6, 12), 2, 4
		base.windowPct = 20
		base.exactPct = 6
	case "C05":
		base.exactPct = 8
		base.wtimeoutPct, base.faults, base.faultBudget = 8, []string{"clock"}, 2
		base.maxConns, base.minReqs, base.maxReqs = 2, 2, pick(48, 400)
		base.extraFrames, base.bigPct, base.windowPct, base.pausePct, base.stallPct = 4, 10, 50, 20, 40
		base.richResp = true
		base.endings = []string{"", "", "", "close"}
		base.tlsPct, base.startTLSPct = 10, 15
		base.stopPct = 15
	case "C06":
		base.holdAll, base.maxConns, base.maxReqs, base.minReqs = true, 4, pick(40, 256), 1
		base.endings = []string{""}
		base.unbindPct = 10
		base.startTLSPct = 15
		base.deepPct = pick(2, 0) // the thorough tier goes deep anyway
	case "C07":
		base.maxConns, base.maxReqs = 4, 6
		base.faults, base.faultBudget = []string{"reset", "accept", "pause"}, 3
		base.endings = []string{"", "", "close", "reset", "midframe", "garbage"}
		base.lateClient, base.panicPct, base.windowPct = true, 6, 20
		base.unbindPct, base.startTLSPct = 25, 15
		base.onClose = []int{0, 1}
		base.tlsPct, base.misbehave = 20, true
		base.stormPct = 2
	case "C08":
		base.maxConns, base.maxReqs = pick(5, 8), 5
		base.endings = []string{"close", "halfclose", "reset", "unbind", "midframe", "garbage", "negative", "", "close"}
		base.onClose = []int{1, 1, 2}
		base.stallPct, base.longPct, base.windowPct, base.pausePct = 35, 15, 35, 30
		base.stopPct, base.timeoutPct = 35, 15
		base.panicPct, base.bigPct, base.passivePct = 5, 6, 50
		base.faults, base.faultBudget = []string{"reset", "clock"}, 2
		base.extraFrames = 2
		base.tlsPct, base.startTLSPct = 10, 15
	case "C09":
		base.maxConns, base.maxReqs = pick(10, 24), 3
		base.endings = []string{"close", "close", "reset", "unbind", "", "halfclose"}
		base.onClose = []int{1}
		base.lateClient = true
		base.faults, base.faultBudget = []string{"accept"}, 2
		base.startTLSPct, base.tlsPct = 15, 10 // the ID must survive a StartTLS upgrade
	case "C10":
		base.maxConns, base.maxReqs, base.unbindPct = 3, pick(8, 20), 100
		base.endings = []string{"", "", "close"}
		base.stallPct, base.longPct = 40, 10
		base.onClose = []int{0, 1}
		base.panicPct = 3 // mostly the unbind handler's (x3), on the connection goroutine
	case "C11":
		base.maxConns, base.maxReqs = pick(4, 8), pick(6, 24)
		base.stopPct, base.passiveEnd = 100, true
		base.stop2Pct = 8 // Stop while Run is still starting up: Run must return all the same
		base.wtimeoutPct = 10
		base.stormPct = 2
		base.endings = []string{"", "", "", "midframe-open", "close", "unbind", "halfclose"}
		base.windowPct, base.pausePct, base.stallPct = 35, 35, 25
		base.extraFrames, base.bigPct = 2, 10
		base.onClose = []int{0, 1}
		base.tlsPct, base.startTLSPct = 15, 10
		base.misbehave = true
	case "C12":
		base.maxConns, base.maxReqs = pick(4, 8), 4
		base.stopPct, base.stop2Pct = 80, 20
		base.onClose = []int{1, 2, 2}
		base.stallPct, base.longPct = 40, 10
		base.endings = []string{"", "", "close", "midframe-open", "reset", "unbind", "halfclose"}
		base.tlsPct, base.startTLSPct = 15, 15
		base.faults, base.faultBudget = []string{"reset"}, 2
		base.windowPct, base.pausePct, base.bigPct, base.extraFrames, base.passivePct = 25, 25, 8, 2, 35
	case "C13":
		base.maxConns, base.maxReqs = pick(4, 6), pick(6, 12)
		base.startTLSPct = 85
		base.endings = []string{"", "", "close"}
		base.faults, base.faultBudget, base.stopPct = []string{"clock"}, 2, 15
		base.stallPct, base.extraFrames, base.richResp, base.rich = 30, 2, true, true
		base.tlsPct, base.noTLSRoute, base.again = 12, 25, 20
	case "C18":
		base.maxConns, base.maxReqs = pick(5, 8), 4
		base.crowdPct = 6
		base.tlsPct, base.misbehave = 100, true
		base.endings = []string{"", "", "close"}
	case "C17":
		base.maxConns, base.maxReqs = 2, 2
		base.readyPoll, base.badAddrPct, base.busyPortPct = true, 25, 25
		base.stopPct, base.tlsPct, base.misbehave = 30, 30, true
		base.maxConns = 3
		base.faults, base.faultBudget, base.lateClient = []string{"accept"}, 2, true // Ready stays true: so must the service
	case "C15":
		base.maxConns, base.maxReqs = 4, 8
		base.endings = []string{"", "close", "reset", "unbind", "halfclose", "midframe"}
		base.onClose = []int{1, 2}
		base.stallPct, base.windowPct, base.pausePct, base.stopPct, base.stop2Pct = 30, 20, 10, 50, 5
		base.extraFrames, base.readyPoll, base.richResp, base.rich = 3, true, true, true
		base.timeoutPct = 10
		base.tlsPct, base.startTLSPct = 15, 25
		base.panicPct = 4
	}
	return base
}

var fullMux = []RouteSpec{{Kind: "bind"}, {Kind: "search"}, {Kind: "modify"}, {Kind: "add"}, {Kind: "delete"},
	{Kind: "extended", ExtName: "1.3.6.1.4.1.4203.1.11.3"}, {Kind: "extended", ExtName: oidStartTLS}, {Kind: "default"}, {Kind: "unbind"}}

var muxDNs = []string{"", "dc=example,dc=org", "DC=Example,DC=Org", "ou=people"}
var muxFilters = []string{"", "(cn=alice)", "(CN=Alice)", "(objectClass=*)"}
var muxExt = []string{"1.3.6.1.4.1.4203.1.11.3", "1.3.6.1.1.8", "1.2.3.4.5"}

func drawMux(ch *Chooser, tier string) []RouteSpec {
	k := 4
	if tier == "thorough" {
		k = 6
	}
	n := ch.Choose(k + 1)
	var rs []RouteSpec
	for i := 0; i < n; i++ {
		var r RouteSpec
		switch ch.Choose(8) {
		case 0, 1, 2:
			r = RouteSpec{Kind: "search", BaseDN: muxDNs[ch.Choose(len(muxDNs))], Filter: muxFilters[ch.Choose(len(muxFilters))], Scope: int64(ch.Choose(3))}
		case 3:
			r = RouteSpec{Kind: "extended", ExtName: muxExt[ch.Choose(len(muxExt))]}
		case 4:
			r = RouteSpec{Kind: "bind"}
		case 5:
			r = RouteSpec{Kind: "modify"}
		case 6:
			r = RouteSpec{Kind: "add"}
		default:
			r = RouteSpec{Kind: "delete"}
		}
		r.Label = fmt.Sprintf("r%d", i)
		rs = append(rs, r)
	}
	// the last one or two routes may be registered later, on the live mux
	if ch.Choose(3) == 2 {
		if ch.Choose(2) == 1 {
			rs = append(rs, RouteSpec{Kind: []string{"extended", "extended", "bind", "add"}[ch.Choose(4)], ExtName: muxExt[ch.Choose(len(muxExt))], Label: fmt.Sprintf("r%d", len(rs))})
		}
		for i, k := len(rs)-1, 1+ch.Choose(2); i >= 0 && k > 0; i, k = i-1, k-1 {
			rs[i].Late = 1
		}
		if ch.Choose(2) == 1 {
			// a second task registers, at the same time, a route that shares
			// no request with any other
			rs = append(rs, RouteSpec{Kind: "extended", ExtName: "1.2.3.4.9", Label: fmt.Sprintf("r%d", len(rs)), Late: 2})
		}
	}
	// default / unbind routes, possibly registered twice (the later one wins)
	for i, nd := 0, ch.Choose(3); i < nd; i++ {
		at := ch.Choose(len(rs) + 1)
		rs = append(rs[:at], append([]RouteSpec{{Kind: "default"}}, rs[at:]...)...)
	}
	for i, nu := 0, ch.Choose(3); i < nu; i++ {
		at := ch.Choose(len(rs) + 1)
		rs = append(rs[:at], append([]RouteSpec{{Kind: "unbind"}}, rs[at:]...)...)
	}
	return rs
}

// muxRequest draws a request over the small alphabet the random route tables use.
func muxRequest(g *Gen) *ReqRec {
	ch := g.Ch
	r := &ReqRec{MsgID: g.MsgID(), BindVersion: 3}
	switch ch.Choose(8) {
	case 0, 1, 2:
		r.Op = "search"
		r.DN = []string{"dc=example,dc=org", "DC=EXAMPLE,dc=org", "ou=people", "ou=other", ""}[ch.Choose(5)]
		r.Filter = []string{"(cn=alice)", "(cn=ALICE)", "(objectClass=*)", "(cn=bob)"}[ch.Choose(4)]
		r.Scope = int64(ch.Choose(3))
	case 3:
		r.Op = "extended"
		r.ExtName = []string{"1.3.6.1.4.1.4203.1.11.3", "1.3.6.1.1.8", "1.2.3.4.5", "1.3.6.1.4.1.4203.1.11.1", "1.3.6.1.1.8 ", "1.2.3.4.9"}[ch.Choose(6)]
	case 4:
		r.Op, r.DN, r.Password = "bind", "cn=alice", "pw"
	case 5:
		r.Op, r.DN = "modify", "cn=alice"
		r.Changes = []ChangeRec{{Op: 2, Type: "mail", Vals: []string{"a@x"}}}
	case 6:
		r.Op, r.DN = "add", "cn=new"
		r.AddAttrs = []AttrRec{{Type: "cn", Vals: []string{"new"}}}
	default:
		r.Op, r.DN = "delete", "cn=old"
	}
	return r
}

// DrawCore draws the whole plan of one S-core run.
func DrawCore(prop, tier string, ch *Chooser, lean bool, s *Sim) *Core {
	p := profileFor(prop, tier)
	cfg := &CoreCfg{Prop: prop, Tier: tier, Lean: lean, Port: 389, Addr: "127.0.0.1:389", FaultKinds: map[string]bool{}}
	c := &Core{Cfg: cfg, reqs: map[int64]*Req{}}
	g := NewGen(ch)
	c.gen = g
	if prop == "C14" || prop == "C01" || prop == "C15" {
		g.GldapEncPct = 40
	}

	// scheduling knobs (swarm)
	s.FragMode = ch.Choose(3)
	s.StickyPct = []int{0, 50, 90, 0}[ch.Choose(4)]
	s.WRun = 1 + ch.Choose(10)
	s.WDeliver = 1 + ch.Choose(6)
	s.WHarness = 1 + ch.Choose(6)

	cfg.LogLevel = []hclog.Level{hclog.Error, hclog.Debug, hclog.Info, hclog.Off}[ch.Choose(4)]
	cfg.LogJSON = ch.Choose(4) == 3
	cfg.OnClose = p.onClose[ch.Choose(len(p.onClose))]
	if ch.Chance(p.timeoutPct) {
		cfg.ReadTimeout = []time.Duration{50 * time.Millisecond, time.Second, 30 * time.Second}[ch.Choose(3)]
	}
	if ch.Chance(p.timeoutPct) {
		cfg.WriteTimeout = []time.Duration{50 * time.Millisecond, time.Second, 30 * time.Second}[ch.Choose(3)]
	}
	if cfg.WriteTimeout == 0 && ch.Chance(p.wtimeoutPct) {
		cfg.WriteTimeout = []time.Duration{50 * time.Millisecond, time.Second, 30 * time.Second, 5 * time.Minute}[ch.Choose(4)]
	}
	if p.randomMux {
		cfg.Routes = drawMux(ch, tier)
	} else {
		cfg.Routes = append([]RouteSpec{}, fullMux...)
		if p.unbindPct > 0 && ch.Choose(2) == 1 {
			cfg.Routes = cfg.Routes[:len(cfg.Routes)-1] // no unbind route
		}
		if prop == "C01" && ch.Choose(2) == 1 {
			// search routes with criteria in front of the catch-all one: every
			// search request is compared with them before it is served, and
			// must reach its handler unchanged by that
			cfg.Routes = append([]RouteSpec{
				{Kind: "search", BaseDN: "ou=nobody,dc=never,dc=matches", Label: "crit-dn"},
				{Kind: "search", Filter: "(cn=never-matches)", Scope: int64(1 + ch.Choose(2)), Label: "crit-filter"},
			}, cfg.Routes...)
		}
		if ch.Chance(p.noTLSRoute) {
			// the application handles StartTLS in its default route
			var rs []RouteSpec
			for _, r := range cfg.Routes {
				if !(r.Kind == "extended" && r.ExtName == oidStartTLS) {
					rs = append(rs, r)
				}
			}
			cfg.Routes = rs
		}
		if prop == "C10" && ch.Choose(3) == 2 {
			// no default route either
			var rs []RouteSpec
			for _, r := range cfg.Routes {
				if r.Kind != "default" {
					rs = append(rs, r)
				}
			}
			cfg.Routes = rs
		}
	}
	for _, r := range cfg.Routes {
		if r.Kind == "default" {
			cfg.HasDefault = true
		}
		if r.Kind == "unbind" {
			cfg.HasUnbind = true
		}
	}
	switch {
	case ch.Chance(p.stop2Pct):
		cfg.StopMode = 2
	case ch.Chance(p.stopPct):
		cfg.StopMode = 1
		cfg.StopAt = ch.Choose(120)
		cfg.SecondStop = ch.Choose(3) == 2
	}
	cfg.SecondServer = prop == "C09" && ch.Choose(4) == 3
	cfg.PassiveEnd = p.passiveEnd || (cfg.StopMode == 1 && p.passivePct > 0 && ch.Chance(p.passivePct))
	cfg.HoldAll = p.holdAll
	cfg.ReadyPoll = p.readyPoll
	if len(p.faults) > 0 && ch.Choose(4) != 0 {
		cfg.FaultBudget = 1 + ch.Choose(p.faultBudget)
		for _, f := range p.faults {
			if ch.Choose(2) == 1 {
				cfg.FaultKinds[f] = true
			}
		}
	}
	if ch.Chance(p.badAddrPct) {
		cfg.Addr = []string{"127.0.0.1", "127.0.0.1:", "[::1", "[::1]", "[zz::1]:389", ":::389", "1.2.3:389:", "[::1]:", "", ":", "[::1]:x:", "::"}[ch.Choose(12)]
		cfg.Malformed = true
	} else if p.readyPoll {
		cfg.Addr = []string{"127.0.0.1:389", ":389", "[::1]:389", "::1:389", "0.0.0.0:389"}[ch.Choose(5)]
	}

	if prop == "C02" {
		c.drawC02(ch, g, s, tier)
		return c
	}
	if ch.Chance(p.tlsPct) {
		cfg.TLSMode = 1 + ch.Choose(2)
		cfg.TLSViaCallback = ch.Choose(3) == 2
	}
	if !cfg.Malformed && ch.Chance(p.busyPortPct) {
		cfg.BusyPort = true
		cfg.BusyReuse = ch.Choose(2) == 1
	}
	nConns := ch.Int(1, p.maxConns)
	if prop == "C11" || prop == "C12" {
		nConns = ch.Int(0, p.maxConns)
	}
	crowd := cfg.TLSMode > 0 && ch.Chance(p.crowdPct)
	if crowd {
		nConns = 9 + ch.Choose(6)
	}
	deep, storm := ch.Chance(p.deepPct), ch.Chance(p.stormPct)
	if (deep || storm) && nConns == 0 {
		nConns = 1
	}
	pos := 0
	for i := 0; i < nConns; i++ {
		cl := &Client{Idx: i}
		if ch.Chance(p.windowPct) {
			cl.Window = []int{7, 64, 512, 4096, 20000}[ch.Choose(5)]
		}
		if p.lateClient && i == nConns-1 && nConns > 1 {
			cl.Late = ch.Choose(2) == 1
		}
		ending := p.endings[ch.Choose(len(p.endings))]
		if cfg.TLSMode > 0 {
			cl.Flavour = 1
			if crowd && i < nConns-1 && ch.Choose(6) != 0 {
				// a crowd of clients that connect and then say nothing, or stop
				// half-way through the handshake
				cl.Behaviour = []string{"silent", "abandon", "silent", "garbage"}[ch.Choose(4)]
				cl.Flavour, cl.Offending, cl.disturbed = 0, true, true
			} else if p.misbehave && ch.Choose(2) == 1 {
				cl.Behaviour = []string{"plaintext", "garbage", "silent", "abandon", "nocert", "wrongca"}[ch.Choose(6)]
				switch cl.Behaviour {
				case "plaintext", "garbage", "silent", "abandon":
					cl.Flavour, cl.Offending = 0, true
				default:
					cl.Offending = cfg.TLSMode == 2
				}
				cl.disturbed = cl.Offending
			}
		} else if ch.Chance(p.startTLSPct) {
			cl.Flavour = 2
		}
		if cl.Flavour != 0 {
			cl.Window = 0
			switch ending {
			case "", "close", "reset", "unbind":
			default:
				ending = ""
			}
		}
		nReq := ch.Int(p.minReqs, p.maxReqs)
		if cl.Behaviour == "garbage" || cl.Behaviour == "silent" || cl.Behaviour == "abandon" {
			nReq = 0
			if cl.Behaviour == "garbage" {
				ending = "garbage"
			}
			if cl.Behaviour == "abandon" {
				hello := append([]byte{0x16, 0x03, 0x01, 0x00, 0x60, 0x01, 0x00, 0x00, 0x5c, 0x03, 0x03}, ch.Bytes(12+ch.Choose(20))...)
				cl.Steps = append(cl.Steps, CStep{Kind: stSend, Data: hello})
			}
		}
		startTLSAt := -1
		if cl.Flavour == 2 {
			startTLSAt = ch.Choose(min(nReq, 2) + 1)
			nReq++
			// race build only: a client that does not wait for its earlier
			// answers before StartTLS (no byte-stream oracle looks at it)
			cl.Eager = lean && startTLSAt > 0 && ch.Choose(2) == 1
		}
		if prop == "C05" || prop == "C06" {
			// mostly small, sometimes deep
			if ch.Choose(4) != 3 {
				nReq = p.minReqs + ch.Choose(min(p.maxReqs-p.minReqs, 12)+1)
			}
		}
		if i == 0 && deep && nReq > 0 {
			nReq = 129 + ch.Choose(92)
		}
		if i == 0 && storm && nReq > 0 {
			nReq = 33 + ch.Choose(38)
		}
		unbindAt := -1
		if (ending == "unbind" || (p.unbindPct > 0 && ch.Chance(p.unbindPct))) && nReq+1 > startTLSAt+1 {
			unbindAt = startTLSAt + 1 + ch.Choose(nReq-startTLSAt)
			nReq++
		}
		var frames [][]byte
		var reqs []*Req
		for j := 0; j < nReq; j++ {
			var rec *ReqRec
			neg := false
			againTLS := false
			switch {
			case j == startTLSAt:
				rec = &ReqRec{Op: "extended", MsgID: g.MsgID(), BindVersion: 3, ExtName: oidStartTLS}
			case j != unbindAt && cl.Flavour != 0 && j > startTLSAt && ch.Chance(p.again):
				// StartTLS asked for inside the tunnel: the handler refuses, and
				// it is still handled on its own (C13)
				rec = &ReqRec{Op: "extended", MsgID: g.MsgID(), BindVersion: 3, ExtName: oidStartTLS}
				againTLS = true
			case j == unbindAt:
				rec = g.Request("unbind")
			case ch.Chance(p.negPct) || (ending == "negative" && j == nReq-1):
				rec, neg = g.Unsupported(), true
			case p.randomMux:
				rec = muxRequest(g)
			case p.rich:
				rec = g.Request("")
			default:
				rec = plainRequest(g)
			}
			g.Big = ch.Chance(p.bigPct)
			t, err := rec.TLV()
			if err != nil {
				panic("sim: cannot encode generated request: " + err.Error())
			}
			q := &Req{Rec: rec, Bytes: encRaw(t), Client: i, Pos: j + 1, Negative: neg, Script: &Script{}}
			q.BehindUnbind = unbindAt >= 0 && j > unbindAt
			q.Inline = rec.Op == "unbind" || (rec.Op == "extended" && rec.ExtName == oidStartTLS)
			c.drawScript(q, p, ch, g)
			if i == 0 && deep && !q.Inline {
				q.Script.Stall, q.Script.Panic = 2, false // all in flight together
			}
			if i == 0 && storm && rec.Supported() && !q.Inline && !neg {
				q.Script.Panic, q.Script.Resps, q.Script.InWrite = true, nil, ch.Choose(3) == 2
			}
			if cl.Eager && j < startTLSAt {
				q.Script.Stall = 1 // still in flight when the upgrade happens
			}
			if j == startTLSAt {
				q.Script.Panic = q.Script.Panic && prop == "C07" // inline handler panic (C07 only)
				q.Script.Resps = []*RespSpec{{Ctor: "extended", HasCode: true, Code: 0}}
				q.Script.StartTLS = true
				q.Script.StallAfter = ch.Choose(4)
			} else if againTLS {
				q.Script.Panic = false
				q.Script.Resps = []*RespSpec{{Ctor: "extended", HasCode: true, Code: 1}}
				if ch.Choose(2) == 1 {
					q.Script.Stall = 1
				}
			} else if rec.Op == "extended" && rec.ExtName == oidStartTLS {
				rec.ExtName = "1.3.6.1.4.1.4203.1.11.3" // only the scripted upgrade uses the StartTLS name
				t, _ = rec.TLV()
				q.Bytes = encRaw(t)
				q.Inline = false
			} else if prop == "C13" && rec.Op == "extended" && j > startTLSAt && j != unbindAt && !neg && ch.Choose(3) == 0 {
				// a name that is not the StartTLS name but close to it (white
				// space or a NUL around it). Whatever the server makes of it,
				// it must make the same of it everywhere: if the StartTLS route
				// serves it, it is a StartTLS request and is handled on its own.
				// The handler stays in flight and upgrades nothing.
				rec.ExtName = []string{oidStartTLS + " ", " " + oidStartTLS, oidStartTLS + "\x00", oidStartTLS + "\t", oidStartTLS + "\n"}[ch.Choose(5)]
				t, _ = rec.TLV()
				q.Bytes = encRaw(t)
				q.Script.Stall, q.Script.Panic = 1, false
			}
			c.reqs[rec.MsgID] = q
			reqs = append(reqs, q)
			frames = append(frames, q.Bytes)
			pos++
		}
		// segmentation
		mode := ch.Choose(3)
		if prop == "C06" || prop == "C10" {
			mode = []int{0, 0, 2}[mode]
		}
		var cur []byte
		var curReqs []*Req
		flush := func(wait bool) {
			if len(cur) > 0 {
				cl.Steps = append(cl.Steps, CStep{Kind: stSend, Data: cur, Reqs: curReqs, WaitAll: wait})
				cur, curReqs = nil, nil
			}
		}
		for j, f := range frames {
			cur = append(cur, f...)
			curReqs = append(curReqs, reqs[j])
			if j <= startTLSAt {
				flush(false)
				continue
			}
			switch mode {
			case 1:
				flush(ch.Chance(p.waitAllPct))
			case 2:
				if ch.Choose(3) == 0 {
					flush(ch.Chance(p.waitAllPct))
				}
			}
		}
		flush(false)
		if cl.Flavour == 2 && prop == "C13" && ch.Choose(4) == 3 {
			// plaintext injection: a request in the clear right behind the
			// StartTLS request, in the same segment. It must never be served,
			// neither before nor inside the tunnel.
			for si := range cl.Steps {
				for _, q := range cl.Steps[si].Reqs {
					if q.Script.StartTLS {
						x := plainRequest(g)
						t, _ := x.TLV()
						xq := &Req{Rec: x, Bytes: t.Enc(), Client: i, Injected: true, Script: &Script{Resps: []*RespSpec{g.Resp(x.Op, true, false)}}}
						c.reqs[x.MsgID] = xq
						cl.Steps[si].Data = append(append([]byte{}, cl.Steps[si].Data...), xq.Bytes...)
						cl.Injecting, cl.disturbed = true, true
					}
				}
			}
		}
		if cfg.ReadTimeout > 0 && cl.Flavour == 0 && unbindAt < 0 && cl.Behaviour == "" && ch.Chance(p.embedPct) {
			// A request one of whose values is, byte for byte, a complete
			// request of its own (which nobody sent), delivered in two parts
			// with the second starting exactly at that value, and possibly a
			// pause longer than the read timeout in between, while an earlier
			// request is still being served. Whatever the read loop does about
			// the deadline, the inner bytes are never a request.
			inner := plainRequest(g)
			it, _ := inner.TLV()
			ib := encRaw(it)
			rec := &ReqRec{Op: "add", MsgID: g.MsgID(), BindVersion: 3, DN: "cn=embedded", AddAttrs: []AttrRec{{Type: "description", Vals: []string{string(ib)}}}}
			if t, err := rec.TLV(); err == nil {
				q := &Req{Rec: rec, Bytes: encRaw(t), Client: i, Pos: nReq + 1, Script: &Script{}}
				c.drawScript(q, p, ch, g)
				q.Script.Panic = false
				if at := bytes.Index(q.Bytes, ib); at > 0 {
					c.reqs[rec.MsgID] = q
					if len(reqs) > 0 {
						reqs[ch.Choose(len(reqs))].Script.Stall = 1 + ch.Choose(2)
					}
					cl.Steps = append(cl.Steps, CStep{Kind: stSend, Data: q.Bytes[:at]})
					if ch.Choose(3) != 0 {
						cl.Steps = append(cl.Steps, CStep{Kind: stWait, Dur: cfg.ReadTimeout + time.Duration(ch.Choose(3))*cfg.ReadTimeout})
					}
					cl.Steps = append(cl.Steps, CStep{Kind: stSend, Data: q.Bytes[at:], Reqs: []*Req{q}})
					nReq++
				}
			}
		}
		pausePct := p.pausePct
		if cfg.PassiveEnd && p.passivePct > 0 {
			pausePct = 60 // Stop will find clients that never read again
		}
		if ch.Chance(pausePct) && len(cl.Steps) > 0 && cl.Flavour == 0 {
			at := ch.Choose(len(cl.Steps))
			cl.Steps = append(cl.Steps[:at], append([]CStep{{Kind: stPause}}, cl.Steps[at:]...)...)
			if cfg.PassiveEnd && p.passivePct > 0 && ch.Choose(2) == 1 {
				cl.Window = []int{7, 64}[ch.Choose(2)]
			}
		}
		switch ending {
		case "close":
			cl.Steps = append(cl.Steps, CStep{Kind: stClose, WaitAll: ch.Choose(2) == 1})
		case "halfclose":
			cl.Steps = append(cl.Steps, CStep{Kind: stHalfClose})
		case "reset":
			cl.Steps = append(cl.Steps, CStep{Kind: stReset})
		case "midframe", "midframe-open":
			extra := plainRequest(g)
			t, _ := extra.TLV()
			b := t.Enc()
			cut := 1 + ch.Choose(len(b)-1)
			cl.Steps = append(cl.Steps, CStep{Kind: stSend, Data: b[:cut]})
			if ending == "midframe" {
				cl.Steps = append(cl.Steps, CStep{Kind: stClose})
			}
		case "garbage":
			junk := ch.Bytes(1 + ch.Choose(24))
			q := &Req{Rec: &ReqRec{Op: "garbage", MsgID: g.MsgID()}, Bytes: junk, Client: i, Pos: nReq + 1, Corrupt: true, Script: &Script{}}
			c.reqs[q.Rec.MsgID] = q
			cl.Steps = append(cl.Steps, CStep{Kind: stSend, Data: junk, Reqs: []*Req{q}})
		}
		cfg.Clients = append(cfg.Clients, cl)
	}
	if prop == "C06" && ch.Choose(3) == 2 {
		// variant: nobody stalls, but no client reads and the windows are
		// small, so handlers block inside Write; dispatch must go on
		cfg.HoldWrite = true
		for _, cl := range cfg.Clients {
			if cl.Flavour == 0 {
				cl.Window, cl.StartPaused = 64, true
			}
		}
		for _, q := range sortedReqs(c.reqs) {
			q.Script.Stall = 0
			if len(q.Script.Resps) > 0 && q.Script.Resps[0].Ctor != "entry" {
				q.Script.Resps[0].Setters = append(q.Script.Resps[0].Setters, Setter{Kind: "diag", Str: string(make([]byte, 600+ch.Choose(3000)))})
			}
		}
	}
	return c
}

func plainRequest(g *Gen) *ReqRec {
	r := &ReqRec{MsgID: g.MsgID(), BindVersion: 3}
	switch g.Ch.Choose(6) {
	case 0:
		r.Op, r.DN, r.Filter, r.Scope = "search", "dc=example,dc=org", "(cn=alice)", 2
	case 1:
		r.Op, r.DN, r.Password = "bind", "cn=alice", "pw"
	case 2:
		r.Op, r.DN = "modify", "cn=alice"
		r.Changes = []ChangeRec{{Op: 2, Type: "mail", Vals: []string{"a@x"}}}
	case 3:
		r.Op, r.DN = "add", "cn=new"
		r.AddAttrs = []AttrRec{{Type: "cn", Vals: []string{"new"}}}
	case 4:
		r.Op, r.DN = "delete", "cn=old"
	default:
		r.Op, r.ExtName = "extended", "1.3.6.1.4.1.4203.1.11.3"
		if g.Ch.Choose(2) == 1 {
			r.ExtName = "1.2.3.4.5" // no route of the full table: served by the default route
		}
	}
	return r
}

func (c *Core) drawScript(q *Req, p profile, ch *Chooser, g *Gen) {
	sc := q.Script
	op := q.Rec.Op
	if p.holdAll {
		sc.Stall = 1
	} else if ch.Chance(p.stallPct) {
		sc.Stall = 1
		if ch.Chance(p.longPct) {
			sc.Stall = 2
		}
	}
	if op == "unbind" && ch.Chance(p.panicPct*3) {
		sc.Panic = true // the unbind handler runs on the connection goroutine
	}
	if !q.Rec.Supported() || op == "unbind" {
		return
	}
	if ch.Chance(p.panicPct) {
		sc.Panic = true
		sc.InWrite = ch.Choose(3) == 2
		return
	}
	if op == "search" {
		n := ch.Choose(3)
		for i := 0; i < n; i++ {
			sc.Resps = append(sc.Resps, g.Resp(op, false, p.richResp))
		}
	}
	if op == "search" && len(sc.Resps) > 0 && p.richResp && ch.Choose(8) == 7 {
		// a handler that streams entries and (not yet, or never) finishes
	} else {
		sc.Resps = append(sc.Resps, g.Resp(op, true, p.richResp))
	}
	if ch.Chance(p.exactPct) {
		sc.Resps[len(sc.Resps)-1].PadTo(q.Rec.MsgID, []int{4095, 4096, 4097, 8192, 4096, 4096}[ch.Choose(6)])
	}
	sc.ReuseCtrl = p.richResp && ch.Choose(2) == 1
	defer func() {
		if !sc.ReuseCtrl || ch.Choose(2) == 0 {
			return
		}
		// a paged-search style handler: the kept paging control keeps its page
		// size and gets a new cookie of the same length for every response
		var first *CtrlRec
		for _, sp := range sc.Resps {
			for si := range sp.Setters {
				cs := sp.Setters[si].Ctrl
				for ci := range cs {
					if cs[ci].Kind != "paging" {
						continue
					}
					if first == nil {
						first = &cs[ci]
						if len(first.Cookie) == 0 {
							first.Cookie = ch.Bytes(4 + ch.Choose(8))
						}
					} else {
						cs[ci].PageSize = first.PageSize
						cs[ci].Cookie = ch.Bytes(len(first.Cookie))
					}
					break
				}
			}
		}
	}()
	if p.extraFrames > 0 {
		n := ch.Choose(p.extraFrames + 1)
		for i := 0; i < n; i++ {
			sp := g.Resp(op, true, p.richResp)
			if ch.Chance(p.bigPct * 3) {
				sp.Setters = append(sp.Setters, Setter{Kind: "diag", Str: string(make([]byte, 3000+ch.Choose(6000)))})
			}
			sc.Resps = append(sc.Resps, sp)
		}
	}
}

// drawC02 plans one C02 run: a block of enumerated single-point mutants (or,
// past the enumeration, sampled double mutants and byte damage), each on its
// own connection between two valid requests, next to bystander connections.
func (c *Core) drawC02(ch *Chooser, g *Gen, s *Sim, tier string) {
	cfg := c.Cfg
	initCanon()
	const B = 6
	total := canonTotal + tinyTotal
	nBlocks := (total + B - 1) / B
	block := ch.Enum(nBlocks+1, s.RunIndex)
	cfg.NoRecovery = ch.Choose(2) == 1
	cfg.LogLevel = 1 + hclogLevel(ch.Choose(3))
	s.Probes["C02-single-point-blocks-total"] = nBlocks
	add := func(cl *Client, rec *ReqRec, bytes []byte, corrupt bool, desc string) {
		q := &Req{Rec: rec, Bytes: bytes, Client: cl.Idx, Pos: len(cl.Steps) + 1, Corrupt: corrupt, Script: &Script{}}
		if !corrupt {
			q.Script.Resps = []*RespSpec{g.Resp(rec.Op, true, false)}
		}
		c.reqs[rec.MsgID] = q
		cl.Steps = append(cl.Steps, CStep{Kind: stSend, Data: bytes, Reqs: []*Req{q}, WaitAll: !corrupt && len(cl.Steps) >= 1 && cl.Steps[len(cl.Steps)-1].Reqs[0].Corrupt})
		if corrupt {
			c.mutants = append(c.mutants, fmt.Sprintf("%s: %s", cl.name(), desc))
		}
	}
	valid := func(cl *Client) {
		rec := plainRequest(g)
		// mutated frames carry small message IDs of their own (77, 5, 7, one
		// flipped byte): keep the valid requests far away from them
		for {
			rec.MsgID = int64(1<<24 + ch.Choose(1<<30))
			if c.reqs[rec.MsgID] == nil {
				break
			}
		}
		t, _ := rec.TLV()
		add(cl, rec, t.Enc(), false, "")
	}
	for k := 0; k < B; k++ {
		cl := &Client{Idx: len(cfg.Clients)}
		var frame []byte
		var desc string
		if block < nBlocks {
			gi := block*B + k
			if gi >= total {
				break
			}
			frame, desc = singleMutant(gi)
			s.Probes["C02-single-point-mutants"]++
		} else if ch.Choose(3) == 0 {
			frame, desc = byteDamage(ch)
			s.Probes["C02-byte-damage"]++
		} else {
			frame, desc = doubleMutant(ch)
			s.Probes["C02-double-point-mutants"]++
		}
		// a third of the mutants, and every tiny stream, are the first thing
		// the connection ever sends
		first := ch.Choose(3) == 2 || (block < nBlocks && block*B+k >= canonTotal)
		if !first {
			valid(cl)
		}
		add(cl, &ReqRec{Op: "mutant", MsgID: g.MsgID()}, frame, true, desc)
		if len(frame) > 2 {
			valid(cl)
		}
		if ch.Choose(3) == 0 || (block < nBlocks && block*B+k >= canonTotal) {
			// (a tiny stream always ends after its one or two bytes: that, and
			// not a connection left open, is the enumerated case)
			cl.Steps = append(cl.Steps, CStep{Kind: stClose})
		}
		cfg.Clients = append(cfg.Clients, cl)
	}
	if block < nBlocks {
		s.Probes["C02-single-point-block"]++
	}
	for k, nb := 0, 1+ch.Choose(2); k < nb; k++ {
		cl := &Client{Idx: len(cfg.Clients)}
		for j, n := 0, 1+ch.Choose(3); j < n; j++ {
			valid(cl)
		}
		cfg.Clients = append(cfg.Clients, cl)
	}
}

func hclogLevel(i int) hclog.Level { return hclog.Level(i) }
