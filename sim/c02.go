package sim

import "fmt"

// C02: the complete set of single-point shape/type mutations of every
// canonical request (each operation x each control kind), enumerated; double
// mutations and raw byte damage sampled from the seed (DESIGN.md 7, C02).

type mutation struct {
	path []int
	kind int
	arg  int
}

const (
	mReplace = iota
	mDelete
	mDuplicate
	mSwapNext
	mTruncKids
	mExtendKids
	mLenPlus
	mLenMinus
	mLenIndef
	mLenHuge
	mLenFF
	mFlipCons
	mEmptyVal
	mLongVal
	mKinds
)

var mutNames = []string{"replace", "delete", "duplicate", "swap-next", "truncate-children", "extend-children", "length+1", "length-1", "length-indefinite", "length-huge", "length-0xff", "flip-constructed", "empty-value", "long-value"}

func replacement(i int) *TLV {
	switch i {
	case 0:
		return tInt(5)
	case 1:
		return tBool(true)
	case 2:
		return tOctet("x")
	case 3:
		return tNull()
	case 4:
		return tSeq()
	case 5:
		return tSeq(tOctet("a"), tInt(1))
	case 6:
		return tSet()
	case 7:
		return tSet(tOctet("v"))
	case 8:
		return tCtxPrim(0, []byte("p"))
	case 9:
		return tCtxCons(0, tOctet("c"))
	case 10:
		return tCtxCons(0)
	case 11:
		return tAppPrim(2, nil)
	case 12:
		return tApp(3, tInt(1))
	case 13:
		return tEnum(1)
	case 14:
		return tCtxPrim(1, []byte{1})
	case 15:
		return tCtxCons(1, tCtxPrim(0, []byte{1}))
	case 16:
		return tAppPrim(10, []byte("cn=x"))
	case 17:
		return tApp(0, tInt(3), tOctet(""), tCtxPrim(0, nil))
	}
	return nil
}

const nReplacements = 18

func nodeAt(t *TLV, path []int) (*TLV, *TLV, int) {
	var parent *TLV
	idx := -1
	for _, i := range path {
		parent, idx = t, i
		t = t.Kids[i]
	}
	return t, parent, idx
}

func walk(t *TLV, path []int, f func(*TLV, []int)) {
	f(t, path)
	for i, k := range t.Kids {
		walk(k, append(append([]int{}, path...), i), f)
	}
}

// enumerate lists every single-point mutation of the tree.
func enumerate(root *TLV) []mutation {
	var ms []mutation
	walk(root, nil, func(n *TLV, path []int) {
		for r := 0; r < nReplacements; r++ {
			ms = append(ms, mutation{path, mReplace, r})
		}
		if len(path) > 0 {
			ms = append(ms, mutation{path, mDelete, 0}, mutation{path, mDuplicate, 0}, mutation{path, mSwapNext, 0})
		}
		if n.Cons || n.Wrap {
			ms = append(ms, mutation{path, mTruncKids, 0})
			for a := 0; a < 3; a++ {
				ms = append(ms, mutation{path, mExtendKids, a})
			}
		} else {
			ms = append(ms, mutation{path, mEmptyVal, 0}, mutation{path, mLongVal, 0})
		}
		for k := mLenPlus; k <= mFlipCons; k++ {
			ms = append(ms, mutation{path, k, 0})
		}
	})
	return ms
}

func (m mutation) String() string {
	if m.kind == mReplace {
		return fmt.Sprintf("%v:replace-by-%v", m.path, replacement(m.arg))
	}
	return fmt.Sprintf("%v:%s/%d", m.path, mutNames[m.kind], m.arg)
}

func bodyLen(n *TLV) int {
	if !(n.Cons || n.Wrap) {
		return len(n.Val)
	}
	l := 0
	for _, k := range n.Kids {
		l += len(encRaw(k))
	}
	return l
}

// apply returns a mutated copy.
func apply(root *TLV, m mutation) *TLV {
	t := root.clone()
	n, parent, idx := nodeAt(t, m.path)
	switch m.kind {
	case mReplace:
		r := replacement(m.arg)
		if parent == nil {
			return r
		}
		parent.Kids[idx] = r
	case mDelete:
		parent.Kids = append(parent.Kids[:idx], parent.Kids[idx+1:]...)
	case mDuplicate:
		parent.Kids = append(parent.Kids[:idx+1], append([]*TLV{n.clone()}, parent.Kids[idx+1:]...)...)
	case mSwapNext:
		if idx+1 < len(parent.Kids) {
			parent.Kids[idx], parent.Kids[idx+1] = parent.Kids[idx+1], parent.Kids[idx]
		} else if idx > 0 {
			parent.Kids[idx], parent.Kids[idx-1] = parent.Kids[idx-1], parent.Kids[idx]
		}
	case mTruncKids:
		if len(n.Kids) > 0 {
			n.Kids = n.Kids[:len(n.Kids)-1]
		}
	case mExtendKids:
		n.Kids = append(n.Kids, []*TLV{tOctet("extra"), tInt(7), tSeq(tOctet("e"))}[m.arg])
	case mLenPlus:
		n.RawLen = encLen(bodyLen(n) + 1)
	case mLenMinus:
		if l := bodyLen(n); l > 0 {
			n.RawLen = encLen(l - 1)
		} else {
			n.RawLen = []byte{0x81, 0x00}
		}
	case mLenIndef:
		n.RawLen = []byte{0x80}
	case mLenHuge:
		n.RawLen = []byte{0x83, 0x10, 0x00, 0x00} // 1 MiB announced, never sent
	case mLenFF:
		n.RawLen = []byte{0xff}
	case mFlipCons:
		enc := append([]byte(nil), encRaw(n)...)
		enc[0] ^= 0x20
		*n = TLV{Cls: -1, Val: enc}
	case mEmptyVal:
		n.Val = nil
	case mLongVal:
		n.Val = make([]byte, 300)
	}
	return t
}

// canonical requests: each operation x each control shape.
var canonCtrls = [][]CtrlRec{
	nil,
	{{Kind: "paging", PageSize: 100, Cookie: []byte("ck"), Expire: -1, Grace: -1, ErrCode: -1}},
	{{Kind: "behera", Expire: -1, Grace: -1, ErrCode: -1}},
	{{Kind: "behera", Expire: -1, Grace: 3, ErrCode: -1}},
	{{Kind: "behera", Expire: 600, Grace: -1, ErrCode: -1}},
	{{Kind: "behera", Expire: -1, Grace: -1, ErrCode: 2}},
	{{Kind: "vchumust"}},
	{{Kind: "vchuwarn", Expire: 86400}},
	{{Kind: "manage", Crit: true}},
	{{Kind: "msnotif"}},
	{{Kind: "msshowdel"}},
	{{Kind: "msttl"}},
	{{Kind: "string", OID: "1.2.3.4", Crit: true, Value: "v", HasValue: true}},
	{{Kind: "string", OID: "1.2.3.4", Value: "v", HasValue: true}},
	{{Kind: "string", OID: "1.2.3.4", Crit: true}},
	{{Kind: "manage"}, {Kind: "paging", PageSize: 5, Expire: -1, Grace: -1, ErrCode: -1}},
}

var canonOps = []string{"bind", "search", "modify", "add", "delete", "extended", "unbind"}

func canonical(op string, ctrls []CtrlRec) *ReqRec {
	r := &ReqRec{Op: op, MsgID: 77, BindVersion: 3, Controls: ctrls}
	switch op {
	case "bind":
		r.DN, r.Password = "cn=alice,dc=example,dc=org", "secret"
	case "search":
		r.DN, r.Scope, r.Deref, r.SizeLimit, r.TimeLimit, r.Filter, r.Attrs = "dc=example,dc=org", 2, 3, 10, 20, "(&(objectClass=person)(|(cn=a*b)(uid>=x)))", []string{"cn", "mail"}
	case "modify":
		r.DN = "cn=alice,dc=example,dc=org"
		r.Changes = []ChangeRec{{Op: 0, Type: "mail", Vals: []string{"a@x", "b@x"}}, {Op: 1, Type: "sn"}, {Op: 2, Type: "cn", Vals: []string{"A"}}}
	case "add":
		r.DN = "cn=new,dc=example,dc=org"
		r.AddAttrs = []AttrRec{{Type: "objectClass", Vals: []string{"top", "person"}}, {Type: "cn", Vals: []string{"new"}}}
	case "delete":
		r.DN = "cn=old,dc=example,dc=org"
	case "extended":
		r.ExtName = "1.3.6.1.4.1.4203.1.11.3"
		v := "value"
		r.ExtValue = &v
	}
	return r
}

type canonCase struct {
	op   string
	ci   int
	tree *TLV
	muts []mutation
}

var canonCases []canonCase
var canonTotal int

func initCanon() {
	if canonCases != nil {
		return
	}
	for _, op := range canonOps {
		for ci, cs := range canonCtrls {
			t, err := canonical(op, cs).TLV()
			if err != nil {
				panic(err)
			}
			c := canonCase{op: op, ci: ci, tree: t, muts: enumerate(t)}
			canonCases = append(canonCases, c)
			canonTotal += len(c.muts)
		}
	}
}

// tinyStreams: every one-byte stream and every first byte followed by a few
// telling second bytes (the connection then ends or stalls with nothing more
// to read). They are part of the enumerated space.
var tinySeconds = []byte{0x00, 0x01, 0x7f, 0x80, 0x81, 0x84, 0xff}

const tinyTotal = 256 * (1 + 7)

func tinyStream(g int) ([]byte, string) {
	b := byte(g % 256)
	k := g / 256
	if k == 0 {
		return []byte{b}, fmt.Sprintf("one-byte stream %02x", b)
	}
	return []byte{b, tinySeconds[k-1]}, fmt.Sprintf("two-byte stream %02x %02x", b, tinySeconds[k-1])
}

// singleMutant returns the g-th single-point mutant (0 <= g < canonTotal + tinyTotal).
func singleMutant(g int) (frame []byte, desc string) {
	initCanon()
	if g >= canonTotal {
		return tinyStream(g - canonTotal)
	}
	for _, c := range canonCases {
		if g < len(c.muts) {
			m := c.muts[g]
			return encMutant(apply(c.tree, m)), fmt.Sprintf("%s/ctrl%d %s", c.op, c.ci, m)
		}
		g -= len(c.muts)
	}
	return nil, ""
}

// doubleMutant applies two mutations drawn from the choice source.
func doubleMutant(ch *Chooser) (frame []byte, desc string) {
	initCanon()
	c := canonCases[ch.Choose(len(canonCases))]
	m1 := c.muts[ch.Choose(len(c.muts))]
	t := apply(c.tree, m1)
	ms := enumerate(t)
	if len(ms) == 0 {
		return encMutant(t), fmt.Sprintf("%s/ctrl%d %s", c.op, c.ci, m1)
	}
	m2 := ms[ch.Choose(len(ms))]
	return encMutant(apply(t, m2)), fmt.Sprintf("%s/ctrl%d %s + %s", c.op, c.ci, m1, m2)
}

func encMutant(t *TLV) []byte {
	return encRaw(t)
}

// encRaw is Enc with support for opaque nodes (Cls == -1: Val is the whole encoding).
func encRaw(t *TLV) []byte {
	if t.Cls == -1 {
		return t.Val
	}
	if !(t.Cons || t.Wrap) {
		return t.Enc()
	}
	var body []byte
	for _, k := range t.Kids {
		body = append(body, encRaw(k)...)
	}
	hdr := (&TLV{Cls: t.Cls, Cons: t.Cons && !t.Wrap, Tag: t.Tag, RawLen: lenOr(t.RawLen, len(body))}).Enc()
	return append(hdr, body...)
}

func lenOr(raw []byte, n int) []byte {
	if raw != nil {
		return raw
	}
	return encLen(n)
}

// byteDamage damages a valid frame at the byte level.
func byteDamage(ch *Chooser) (frame []byte, desc string) {
	initCanon()
	c := canonCases[ch.Choose(len(canonCases))]
	b := c.tree.Enc()
	switch ch.Choose(5) {
	case 0:
		i := ch.Choose(len(b))
		b[i] ^= byte(1 << ch.Choose(8))
		return b, fmt.Sprintf("%s/ctrl%d bit-flip@%d", c.op, c.ci, i)
	case 1:
		i := ch.Choose(len(b))
		b[i] = byte(ch.Choose(256))
		return b, fmt.Sprintf("%s/ctrl%d byte-set@%d", c.op, c.ci, i)
	case 2:
		n := 1 + ch.Choose(len(b)-1)
		return b[:n], fmt.Sprintf("%s/ctrl%d truncated@%d", c.op, c.ci, n)
	case 3:
		i := ch.Choose(len(b))
		ins := ch.Bytes(1 + ch.Choose(4))
		return append(append(append([]byte{}, b[:i]...), ins...), b[i:]...), fmt.Sprintf("%s/ctrl%d insert@%d", c.op, c.ci, i)
	}
	r := ch.Bytes(1 + ch.Choose(40))
	return r, "random-bytes"
}
