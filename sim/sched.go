// Package sim is the deterministic simulator for gldap: scheduler, choice
// source, scenarios, clients, handler scripts and oracles (DESIGN.md 2-4).
// It is compiled, together with an instrumented scratch copy of the
// repository, into a worker test binary by cmd/verif.
package sim

import (
	"fmt"
	"hash/fnv"
	"math/rand/v2"
	"sort"
	"strings"
	"testing/synctest"
	"time"

	"github.com/jimlambrt/gldap/simrt"
)

// ---- choice source ---------------------------------------------------------

// Chooser is the single source of every decision in a run. In exploration it
// is a PRNG; in replay it reads a recorded trace (value mod n, 0 once
// exhausted). 0 is the plainest option at every choice point.
type Chooser struct {
	rng    *rand.Rand
	replay []uint32
	isRep  bool
	pos    int
	Rec    []uint32
}

func NewChooser(seed uint64) *Chooser {
	return &Chooser{rng: rand.New(rand.NewPCG(seed, 0x9e3779b97f4a7c15))}
}

func NewReplayChooser(trace []uint32) *Chooser {
	return &Chooser{replay: trace, isRep: true}
}

// Choose returns a value in [0,n).
func (c *Chooser) Choose(n int) int {
	if n <= 1 {
		// still consumes a slot so that traces stay aligned when n changes
		c.Rec = append(c.Rec, 0)
		c.pos++
		return 0
	}
	var v uint32
	if c.isRep {
		if c.pos < len(c.replay) {
			v = c.replay[c.pos] % uint32(n)
		}
	} else {
		v = uint32(c.rng.IntN(n))
	}
	c.pos++
	c.Rec = append(c.Rec, v)
	return int(v)
}

// Int returns a value in [lo,hi]; 0 maps to lo.
func (c *Chooser) Int(lo, hi int) int {
	if hi <= lo {
		return lo
	}
	return lo + c.Choose(hi-lo+1)
}

// Chance is true with probability pct/100; choice 0 is false.
func (c *Chooser) Chance(pct int) bool {
	if pct <= 0 {
		c.Choose(1)
		return false
	}
	return c.Choose(100) >= 100-pct
}

// Enum returns v in exploration (an enumerated, not drawn, decision) and the
// recorded value in replay; either way it is part of the trace.
func (c *Chooser) Enum(n int, v int) int {
	if c.isRep {
		return c.Choose(n)
	}
	if v >= n {
		v = n - 1
	}
	c.pos++
	c.Rec = append(c.Rec, uint32(v))
	return v
}

// Pick returns an index into a list of n options, 0 being the plainest.
func (c *Chooser) Pick(n int) int { return c.Choose(n) }

// Bytes returns n bytes drawn from the choice source.
func (c *Chooser) Bytes(n int) []byte {
	b := make([]byte, n)
	for i := range b {
		b[i] = byte(c.Choose(256))
	}
	return b
}

// ---- violations -------------------------------------------------------------

// Violation is (property, rule, key): the oracle rule that failed and a short
// key built from the facts that distinguish it. Never the seed.
type Violation struct {
	Property string `json:"property"`
	Rule     string `json:"rule"`
	Key      string `json:"key"`
	Detail   string `json:"detail"`
	Step     int64  `json:"step"`
}

func (v Violation) ID() string { return v.Property + " " + v.Rule + " " + v.Key }

// ---- actions ----------------------------------------------------------------

// Action is one thing the scheduler can do next.
type Action struct {
	Class  int
	Key    string
	Weight int
	Do     func()
}

const (
	clsRun = iota
	clsDeliver
	clsFin
	clsHarness
	clsFault
)

// Scenario supplies the harness-level actions and the oracles.
type Scenario interface {
	Setup(s *Sim)
	Actions(s *Sim, acts []Action) []Action
	OnEvent(s *Sim, e *simrt.Event)
	OnDelivered(s *Sim, ep *simrt.Conn)
	Quiescent(s *Sim) bool
	Finish(s *Sim)
	Teardown(s *Sim)
	Gate(p *simrt.Parked) bool
}

// Sim is one simulated run.
type Sim struct {
	W  *simrt.World
	Ch *Chooser

	MaxSteps int
	RunIndex int
	Horizon  time.Duration
	Verbose  bool // keep a human-readable trace

	Steps     int
	Trace     []string
	History   []*simrt.Event
	Viol      []Violation
	violSeen  map[string]bool
	Probes    map[string]int
	Faults    map[string]int
	sig       uint64
	Start     time.Time
	StepCap   bool
	Quiesced  int
	parkedBuf []*simrt.Parked
	evBuf     []*simrt.Event
	acts      []Action

	// per-run scheduling weights (swarm)
	WRun, WDeliver, WHarness, WFault int
	// FragMode: 0 deliver everything, 1 mixed, 2 byte-at-a-time heavy
	FragMode int
	// NoPreempt: keep running the goroutine released last while it is enabled
	StickyPct  int
	lastActor  string
	fragBudget int
	// SeenActors maps every goroutine label ever seen parked to the step it was first seen at.
	SeenActors map[string]int
	// runCount counts, per (goroutine, yield point), how often it was released
	runCount map[string]int
	// LivelockProp is the property a livelock is blamed on in this check
	LivelockProp string

	sc Scenario
}

func NewSim(ch *Chooser) *Sim {
	return &Sim{Ch: ch, MaxSteps: 20000, Horizon: 10 * time.Minute,
		SeenActors: map[string]int{}, runCount: map[string]int{}, violSeen: map[string]bool{}, Probes: map[string]int{}, Faults: map[string]int{},
		WRun: 8, WDeliver: 4, WHarness: 4, WFault: 1}
}

func (s *Sim) Logf(format string, a ...interface{}) {
	if s.Verbose {
		s.Trace = append(s.Trace, fmt.Sprintf("#%d ", s.Steps)+fmt.Sprintf(format, a...))
	}
}

// Violate records a violation once per (property, rule, key).
func (s *Sim) Violate(prop, rule, key, detail string) {
	v := Violation{Property: prop, Rule: rule, Key: key, Detail: detail, Step: int64(s.Steps)}
	if s.violSeen[v.ID()] {
		return
	}
	s.violSeen[v.ID()] = true
	s.Viol = append(s.Viol, v)
	s.Logf("VIOLATION %s: %s", v.ID(), detail)
}

func (s *Sim) Probe(name string) { s.Probes[name]++ }
func (s *Sim) Fault(name string) { s.Faults[name]++ }

func (s *Sim) mix(str string) {
	h := fnv.New64a()
	h.Write([]byte(str))
	s.sig = s.sig*1099511628211 ^ h.Sum64()
}

// Signature is the hash of the sequence of (actor, site/action) pairs taken.
func (s *Sim) Signature() uint64 { return s.sig }

// settle waits until every other goroutine is parked or durably blocked, then
// drains the events of the step just taken and runs the step invariants.
func (s *Sim) settle() {
	simrt.RaceOff()
	synctest.Wait()
	select {
	case <-s.W.Wake:
	default:
	}
	simrt.RaceOn()
	s.evBuf = s.W.Drain(s.evBuf)
	// events of one step come from one goroutine, except when library
	// goroutines the scheduler does not own (go-ldap's) wake each other: put
	// them in a canonical order (by emitter, each emitter's own order kept)
	sort.SliceStable(s.evBuf, func(i, j int) bool { return s.evBuf[i].Actor < s.evBuf[j].Actor })
	for _, e := range s.evBuf {
		s.History = append(s.History, e)
		if s.Verbose {
			s.Trace = append(s.Trace, fmt.Sprintf("#%d   . %s conn=%d msg=%d a=%d b=%d %s", e.Step, e.Kind, e.Conn, e.Msg, e.A, e.B, e.S))
		}
		s.sc.OnEvent(s, e)
	}
}

// idle lets simulated time advance to the next timer; false if nothing
// happened before the horizon (final quiescence).
func (s *Sim) idle() bool {
	simrt.RaceOff()
	defer simrt.RaceOn()
	t := time.NewTimer(s.Horizon)
	defer t.Stop()
	select {
	case <-s.W.Wake:
		return true
	case <-t.C:
		return false
	}
}

// Sleep advances the simulated clock by d although work may be pending
// (fault F11).
func (s *Sim) Sleep(d time.Duration) {
	simrt.RaceOff()
	time.Sleep(d)
	simrt.RaceOn()
}

func (s *Sim) parkedActions(acts []Action) []Action {
	s.parkedBuf = s.W.Snapshot(s.parkedBuf)
	for _, p := range s.parkedBuf {
		if !s.sc.Gate(p) || !s.W.Enabled(p) {
			if p.Kind == "lock" && s.W.CanPend(p) {
				// the writer may "have called Lock" already: from then on new
				// readers of that RWMutex queue behind it (writer preference)
				p := p
				acts = append(acts, Action{Class: clsRun, Key: p.Actor + " @pend:" + p.Site, Weight: 1, Do: func() {
					s.Logf("%s is now waiting inside Lock at %s: new readers queue behind it", p.Actor, p.Site)
					s.Fault("rwmutex-writer-pending")
					s.W.SetPending(p)
				}})
			}
			continue
		}
		p := p
		if _, ok := s.SeenActors[p.Actor]; !ok {
			s.SeenActors[p.Actor] = s.Steps
		}
		acts = append(acts, Action{Class: clsRun, Key: p.Actor + " @" + p.Kind + ":" + p.Site, Weight: s.WRun, Do: func() {
			s.lastActor = p.Actor
			s.W.Release(p)
		}})
	}
	return acts
}

func (s *Sim) connsSorted() []*simrt.Conn {
	var cs []*simrt.Conn
	s.W.EachConn(func(c *simrt.Conn) { cs = append(cs, c) })
	sort.Slice(cs, func(i, j int) bool {
		if cs[i].ID != cs[j].ID {
			return cs[i].ID < cs[j].ID
		}
		return !cs[i].Server && cs[j].Server
	})
	return cs
}

func (s *Sim) netActions(acts []Action) []Action {
	for _, ep := range s.connsSorted() {
		ep := ep
		if n := ep.InFlightIn(); n > 0 && !ep.IsReset() {
			acts = append(acts, Action{Class: clsDeliver, Key: "deliver>" + ep.Name(), Weight: s.WDeliver, Do: func() {
				k := n
				mode := s.FragMode
				if s.fragBudget <= 0 {
					mode = 0
				}
				switch mode {
				case 0:
					s.Ch.Choose(1)
				case 1:
					switch s.Ch.Choose(4) {
					case 1:
						k = 1 + s.Ch.Choose(n)
					case 2:
						k = 1
					case 3:
						k = (n + 1) / 2
					}
				default:
					if s.Ch.Choose(4) != 3 {
						k = 1 + s.Ch.Choose(min(n, 7))
					}
				}
				if k < n {
					s.Fault("F1-short-read")
					s.fragBudget--
				}
				s.Logf("deliver %d/%d bytes -> %s", k, n, ep.Name())
				ep.DeliverIn(k)
				s.sc.OnDelivered(s, ep)
			}})
		}
		if ep.FinPendingIn() {
			acts = append(acts, Action{Class: clsFin, Key: "fin>" + ep.Name(), Weight: s.WDeliver, Do: func() {
				s.Logf("deliver FIN -> %s", ep.Name())
				ep.DeliverFIN()
				s.sc.OnDelivered(s, ep)
			}})
		}
	}
	return acts
}

var syncPointIDs []int
var syncPointsOnce bool

// syncPoints lists the preemption points placed before synchronisation
// operations (the instrumenter names them "<file>:<line> sync ...").
func syncPoints() []int {
	if !syncPointsOnce {
		syncPointsOnce = true
		for i, n := range simrt.PointNames() {
			if strings.Contains(n, " sync ") {
				syncPointIDs = append(syncPointIDs, i)
			}
		}
	}
	return syncPointIDs
}

// Run drives the scenario to final quiescence or the step cap.
func (s *Sim) Run(sc Scenario) {
	s.sc = sc
	s.W = simrt.NewWorld()
	simrt.Install(s.W)
	s.Start = time.Now()
	s.fragBudget = 150
	// swarm: a few preemption points yield in this run: function entries and,
	// half of the time each, the points before synchronisation operations
	if n := len(simrt.PointNames()); n > 0 {
		k := []int{0, 0, 0, 1, 2, 4, 8}[s.Ch.Choose(7)]
		var ids []int
		sp := syncPoints()
		for i := 0; i < k; i++ {
			if len(sp) > 0 && s.Ch.Choose(2) == 1 {
				ids = append(ids, sp[s.Ch.Choose(len(sp))])
			} else {
				ids = append(ids, s.Ch.Choose(n))
			}
		}
		s.W.EnablePoints(ids)
		if k > 0 {
			s.Faults["preemption-points-enabled"] += k
		}
	}
	sc.Setup(s)
	for {
		s.settle()
		if s.Steps >= s.MaxSteps {
			s.StepCap = true
			s.livelock()
			break
		}
		acts := s.acts[:0]
		acts = s.parkedActions(acts)
		acts = s.netActions(acts)
		acts = sc.Actions(s, acts)
		s.acts = acts
		if len(acts) == 0 {
			if s.idle() {
				continue
			}
			s.settle()
			s.Quiesced++
			if sc.Quiescent(s) {
				continue
			}
			break
		}
		sort.SliceStable(acts, func(i, j int) bool {
			if acts[i].Class != acts[j].Class {
				return acts[i].Class < acts[j].Class
			}
			return acts[i].Key < acts[j].Key
		})
		pick := -1
		if s.StickyPct > 0 && s.lastActor != "" {
			for i := range acts {
				if acts[i].Class == clsRun && strings.HasPrefix(acts[i].Key, s.lastActor+" @") {
					if s.Ch.Choose(100) < s.StickyPct {
						pick = i
					}
					break
				}
			}
		}
		if pick < 0 {
			total := 0
			for i := range acts {
				total += acts[i].Weight
			}
			v := s.Ch.Choose(total)
			for i := range acts {
				if v < acts[i].Weight {
					pick = i
					break
				}
				v -= acts[i].Weight
			}
		}
		a := acts[pick]
		s.Steps++
		s.W.Step = int64(s.Steps)
		s.mix(a.Key)
		if a.Class == clsRun {
			s.Logf("run %s", a.Key)
			s.runCount[a.Key]++
		}
		a.Do()
	}
	if s.StepCap && s.W.HotLoops > 0 {
		s.W.KillHotLoops()
	}
	sc.Finish(s)
	sc.Teardown(s)
	s.drainAll()
	simrt.Install(nil)
}

// livelock is called when a run hits the step cap. A run that is merely long
// is inconclusive; but if one goroutine of gldap was released at one and the
// same lock yield point for a quarter of all steps, it is going round in
// circles (a read loop that never ends, a retry without end): bounded progress
// once faults have stopped is violated.
func (s *Sim) livelock() {
	best, n := "", 0
	for k, v := range s.runCount {
		if v > n || (v == n && k < best) {
			best, n = k, v
		}
	}
	if n < s.MaxSteps/4 || !strings.HasPrefix(best, "run") || !(strings.Contains(best, " @lock:") || strings.Contains(best, " @wake:") || strings.Contains(best, " @loop:")) {
		return
	}
	site := best[strings.Index(best, " @")+2:]
	prop := s.LivelockProp
	if prop == "" {
		prop = "C08"
	}
	s.Violate(prop, "livelock", "goroutine-spins-at "+site, fmt.Sprintf("%s was released %d times at the same yield point in a run of %d steps: it never blocks and never ends, so its connection is never closed and Stop cannot return", best, n, s.Steps))
}

// drainAll releases everything that can still run so that goroutines exit
// before the bubble ends.
func (s *Sim) drainAll() {
	for i := 0; i < 200000; i++ {
		simrt.RaceOff()
		synctest.Wait()
		simrt.RaceOn()
		s.evBuf = s.W.Drain(s.evBuf)
		s.parkedBuf = s.W.Snapshot(s.parkedBuf)
		n := 0
		for _, p := range s.parkedBuf {
			p.Ready = nil
			if s.W.Enabled(p) {
				s.W.Release(p)
				n++
				break
			}
		}
		for _, ep := range s.connsSorted() {
			if ep.InFlightIn() > 0 {
				ep.DeliverIn(1 << 30)
				if ep.Passive {
					ep.Consume(1 << 30)
				}
				n++
			} else if ep.FinPendingIn() {
				ep.DeliverFIN()
				n++
			}
		}
		if n == 0 {
			// let pending timers fire a few times (pollers), then give up
			simrt.RaceOff()
			t := time.NewTimer(2 * time.Second)
			woke := false
			select {
			case <-s.W.Wake:
				woke = true
			case <-t.C:
			}
			t.Stop()
			simrt.RaceOn()
			if !woke {
				return
			}
		}
	}
}
