package sim

import (
	"io"
	"log"
	"runtime/debug"
	"strings"

	"github.com/hashicorp/go-hclog"
	"github.com/jimlambrt/gldap/simrt"
)

// stubLogger is a lock-free hclog.Logger. Its only job besides the level is
// to capture the live stack when gldap logs a recovered panic: the log call is
// made from the deferred recover, so the panicking frames are still there.
type stubLogger struct {
	level hclog.Level
	name  string
	// json, if set, is a real hclog logger in JSON format writing to nowhere:
	// every message is also formatted by it, as an application's logger would
	json hclog.Logger
}

func newLogger(level hclog.Level) hclog.Logger { return &stubLogger{level: level} }

// newJSONLogger is newLogger with a real JSON-format hclog logger behind it.
func newJSONLogger(level hclog.Level) hclog.Logger {
	return &stubLogger{level: level, json: hclog.New(&hclog.LoggerOptions{Level: hclog.Trace, JSONFormat: true, Output: io.Discard})}
}

func (l *stubLogger) Log(level hclog.Level, msg string, args ...interface{}) {
	if level == hclog.Error {
		l.Error(msg, args...)
	}
}
func (l *stubLogger) Trace(msg string, args ...interface{}) {}
func (l *stubLogger) Debug(msg string, args ...interface{}) {
	if l.json != nil && l.level <= hclog.Debug {
		l.json.Debug(msg, args...)
	}
}
func (l *stubLogger) Info(msg string, args ...interface{}) {
	if l.json != nil && l.level <= hclog.Info {
		l.json.Info(msg, args...)
	}
}
func (l *stubLogger) Warn(msg string, args ...interface{}) {}
func (l *stubLogger) Error(msg string, args ...interface{}) {
	if l.json != nil {
		l.json.Error(msg, args...)
	}
	if strings.Contains(msg, "Caught panic") || strings.Contains(strings.ToLower(msg), "panic") {
		conn := 0
		for i := 0; i+1 < len(args); i += 2 {
			if k, ok := args[i].(string); ok && k == "conn" {
				if v, ok := args[i+1].(int); ok {
					conn = v
				}
			}
		}
		// only what is stable across runs: the panicking function and its
		// file:line (goroutine numbers and argument words are not)
		fn, where, inSUT := panicSite(string(debug.Stack()))
		a := int64(0)
		if inSUT {
			a = 1
		}
		simrt.Emit("panic-recovered", conn, 0, a, 0, fn+" "+where, nil)
		return
	}
	conn := 0
	for i := 0; i+1 < len(args); i += 2 {
		k, _ := args[i].(string)
		switch v := args[i+1].(type) {
		case string:
			if k == "err" {
				msg += ": " + v
			}
		case error:
			msg += ": " + v.Error()
		case int:
			if k == "conn" {
				conn = v
			}
		}
	}
	simrt.Emit("log-error", conn, 0, 0, 0, msg, nil)
}
func (l *stubLogger) IsTrace() bool                         { return l.level <= hclog.Trace }
func (l *stubLogger) IsDebug() bool                         { return l.level <= hclog.Debug }
func (l *stubLogger) IsInfo() bool                          { return l.level <= hclog.Info }
func (l *stubLogger) IsWarn() bool                          { return l.level <= hclog.Warn }
func (l *stubLogger) IsError() bool                         { return l.level <= hclog.Error }
func (l *stubLogger) ImpliedArgs() []interface{}            { return nil }
func (l *stubLogger) With(args ...interface{}) hclog.Logger { return l }
func (l *stubLogger) Name() string                          { return l.name }
func (l *stubLogger) Named(name string) hclog.Logger        { return l }
func (l *stubLogger) ResetNamed(name string) hclog.Logger   { return l }
func (l *stubLogger) SetLevel(level hclog.Level)            {}
func (l *stubLogger) GetLevel() hclog.Level                 { return l.level }
func (l *stubLogger) StandardLogger(opts *hclog.StandardLoggerOptions) *log.Logger {
	return log.New(io.Discard, "", 0)
}
func (l *stubLogger) StandardWriter(opts *hclog.StandardLoggerOptions) io.Writer { return io.Discard }
