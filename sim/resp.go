package sim

import (
	"fmt"
	"sort"
	"strings"

	"github.com/jimlambrt/gldap"
)

// Handler scripts: what a handler does with a request, generated up front and
// immutable during the run. RespSpec describes one response; Expect is the
// reference model of what must arrive, written from the statement of C04:
// only what the handler set through options and setters is checked.

type Setter struct {
	Kind string // code diag matched controls addattr
	Code int
	Str  string
	Ctrl []CtrlRec
	Attr AttrRec
}

type RespSpec struct {
	Ctor       string // bind searchdone entry extended general modify
	HasCode    bool
	Code       int
	HasDiag    bool
	Diag       string
	HasMatched bool
	Matched    string
	HasApp     bool
	App        int
	EntryDN    string
	WithAttrs  map[string][]string
	Setters    []Setter
	// Again: after the response has been written once, these setters are
	// applied to the same object and it is written a second time
	Again []Setter
}

// Expect is the model of the frame that must arrive. A nil pointer field
// means "not set by the handler: unchecked".
type Expect struct {
	MsgID    int64
	Tag      int // -1 unchecked
	Code     *int64
	Diag     *string
	Matched  *string
	IsEntry  bool
	EntryDN  string
	MapAttrs []AttrRec // from WithAttributes: compared as a multiset (map order)
	Attrs    []AttrRec // from AddAttribute: in order, after the map ones
	Controls []CtrlRec // nil: unchecked (none set); non-nil compared in order
	HasCtrls bool
}

var ctorTag = map[string]int{"bind": 1, "searchdone": 5, "entry": 4, "extended": 24, "modify": 7}

// Model computes the expectation for a response built from request msgID.
func (sp *RespSpec) Model(msgID int64) *Expect { return sp.model(msgID, false) }

// ModelAgain is the expectation for the second write (Again applied).
func (sp *RespSpec) ModelAgain(msgID int64) *Expect { return sp.model(msgID, true) }

func (sp *RespSpec) model(msgID int64, again bool) *Expect {
	e := &Expect{MsgID: msgID, Tag: -1}
	if t, ok := ctorTag[sp.Ctor]; ok {
		e.Tag = t
	}
	if sp.Ctor == "general" && sp.HasApp {
		e.Tag = sp.App
	}
	if sp.Ctor == "entry" {
		e.IsEntry = true
		e.EntryDN = sp.EntryDN
		var names []string
		for n := range sp.WithAttrs {
			names = append(names, n)
		}
		sort.Strings(names)
		for _, n := range names {
			e.MapAttrs = append(e.MapAttrs, AttrRec{Type: n, Vals: sp.WithAttrs[n]})
		}
	} else {
		if sp.HasCode {
			c := int64(sp.Code)
			e.Code = &c
		}
		// which constructors honour which options is part of the statement
		// only as "the values set": the option is offered to every
		// constructor that documents it.
		if sp.HasDiag && (sp.Ctor == "general" || sp.Ctor == "modify") {
			d := sp.Diag
			e.Diag = &d
		}
		if sp.HasMatched && (sp.Ctor == "general" || sp.Ctor == "modify") {
			m := sp.Matched
			e.Matched = &m
		}
	}
	setters := sp.Setters
	if again {
		setters = append(append([]Setter{}, sp.Setters...), sp.Again...)
	}
	for _, s := range setters {
		switch s.Kind {
		case "code":
			c := int64(s.Code)
			e.Code = &c
		case "diag":
			d := s.Str
			e.Diag = &d
		case "matched":
			m := s.Str
			e.Matched = &m
		case "controls":
			e.Controls = append([]CtrlRec{}, s.Ctrl...)
			e.HasCtrls = true
		case "addattr":
			e.Attrs = append(e.Attrs, s.Attr)
		}
	}
	return e
}

// PadTo makes the frame of this (non-entry) response exactly target bytes
// long by giving it a diagnostic message of the right length as its last
// setter: sizes at and around the connection's write-buffer size.
func (sp *RespSpec) PadTo(msgID int64, target int) {
	if sp.Ctor == "entry" {
		return
	}
	var keep []Setter
	for _, st := range sp.Setters {
		if st.Kind != "controls" && st.Kind != "diag" {
			keep = append(keep, st)
		}
	}
	sp.Again = nil
	if !sp.HasCode {
		sp.HasCode, sp.Code = true, 0
	}
	size := func(n int) int {
		sp.Setters = append(append([]Setter{}, keep...), Setter{Kind: "diag", Str: strings.Repeat("p", n)})
		e := sp.Model(msgID)
		matched := ""
		if e.Matched != nil {
			matched = *e.Matched
		}
		return len(tSeq(tInt(msgID), tApp(e.Tag, tEnum(*e.Code), tOctet(matched), tOctet(*e.Diag))).Enc())
	}
	n := target - size(0)
	for i := 0; i < 4 && n >= 0; i++ {
		d := target - size(n)
		if d == 0 {
			return
		}
		n += d
	}
	if n < 0 {
		size(0)
	}
}

// Match compares a received frame with the expectation; "" if it matches.
// The returned field name is stable and used in violation keys.
func (e *Expect) Match(g *RespRec) (field, detail string) {
	if g.MsgID != e.MsgID {
		return "msgid", fmt.Sprintf("frame has message ID %d, request had %d", g.MsgID, e.MsgID)
	}
	if e.Tag >= 0 && g.Tag != e.Tag {
		return "tag", fmt.Sprintf("protocolOp tag %d, want %d", g.Tag, e.Tag)
	}
	if e.IsEntry != g.IsEntry {
		return "shape", fmt.Sprintf("entry=%v want %v", g.IsEntry, e.IsEntry)
	}
	if e.IsEntry {
		if g.EntryDN != e.EntryDN {
			return "entry-dn", fmt.Sprintf("%q vs %q", trunc(g.EntryDN), trunc(e.EntryDN))
		}
		nm := len(e.MapAttrs)
		if len(g.Attrs) != nm+len(e.Attrs) {
			return "attr-count", fmt.Sprintf("%d attributes, want %d", len(g.Attrs), nm+len(e.Attrs))
		}
		ga, wa := sortedAttrs(g.Attrs[:nm]), sortedAttrs(e.MapAttrs)
		for i := range wa {
			if ga[i].Type != wa[i].Type || !eqStrs(ga[i].Vals, wa[i].Vals) {
				return "map-attr", fmt.Sprintf("WithAttributes %q=%q vs %q=%q", trunc(ga[i].Type), truncs(ga[i].Vals), trunc(wa[i].Type), truncs(wa[i].Vals))
			}
		}
		for i, w := range e.Attrs {
			a := g.Attrs[nm+i]
			if a.Type != w.Type {
				return "attr-name", fmt.Sprintf("[%d] %q vs %q", i, trunc(a.Type), trunc(w.Type))
			}
			if !eqStrs(a.Vals, w.Vals) {
				return "attr-values", fmt.Sprintf("[%d] %q vs %q", i, truncs(a.Vals), truncs(w.Vals))
			}
		}
		return "", ""
	}
	if e.Code != nil && g.Code != *e.Code {
		return "result-code", fmt.Sprintf("%d vs %d", g.Code, *e.Code)
	}
	if e.Diag != nil && g.Diag != *e.Diag {
		return "diagnostic-message", fmt.Sprintf("%q vs %q", trunc(g.Diag), trunc(*e.Diag))
	}
	if e.Matched != nil && g.Matched != *e.Matched {
		return "matched-dn", fmt.Sprintf("%q vs %q", trunc(g.Matched), trunc(*e.Matched))
	}
	if e.HasCtrls {
		if len(g.Controls) != len(e.Controls) {
			return "control-count", fmt.Sprintf("%d vs %d", len(g.Controls), len(e.Controls))
		}
		for i := range e.Controls {
			if s := CtrlDiff(e.Controls[i], g.Controls[i]); s != "" {
				return "control " + ctrlClass(e.Controls[i]), fmt.Sprintf("[%d] %s", i, s)
			}
		}
	}
	return "", ""
}

// MakeControl builds the gldap control for a record through the exported
// constructors. ok is false if the constructor refused it.
func MakeControl(c CtrlRec) (gldap.Control, error) {
	switch c.Kind {
	case "paging":
		p, err := gldap.NewControlPaging(c.PageSize)
		if err != nil {
			return nil, err
		}
		if c.Cookie != nil {
			p.SetCookie(c.Cookie)
		}
		return p, nil
	case "behera":
		var opts []gldap.Option
		if c.Grace >= 0 {
			opts = append(opts, gldap.WithGraceAuthNsRemaining(uint(c.Grace)))
		}
		if c.Expire >= 0 {
			opts = append(opts, gldap.WithSecondsBeforeExpiration(uint(c.Expire)))
		}
		if c.ErrCode >= 0 {
			opts = append(opts, gldap.WithErrorCode(uint(c.ErrCode)))
		}
		return gldap.NewControlBeheraPasswordPolicy(opts...)
	case "vchumust":
		return &gldap.ControlVChuPasswordMustChange{MustChange: true}, nil
	case "vchuwarn":
		return &gldap.ControlVChuPasswordWarning{Expire: c.Expire}, nil
	case "manage":
		return gldap.NewControlManageDsaIT(gldap.WithCriticality(c.Crit))
	case "msnotif":
		return gldap.NewControlMicrosoftNotification()
	case "msshowdel":
		return gldap.NewControlMicrosoftShowDeleted()
	case "msttl":
		return gldap.NewControlMicrosoftServerLinkTTL()
	case "string":
		var opts []gldap.Option
		opts = append(opts, gldap.WithCriticality(c.Crit))
		if c.HasValue {
			opts = append(opts, gldap.WithControlValue(c.Value))
		}
		return gldap.NewControlString(c.OID, opts...)
	}
	return nil, fmt.Errorf("unknown control kind %q", c.Kind)
}

// ctrlReuse lets one handler keep a paging control across its responses, as a
// paged-search handler would: the same control object, its cookie rewritten in
// place in the same buffer and handed to SetCookie again.
type ctrlReuse struct {
	paging *gldap.ControlPaging
	buf    []byte
	used   bool // the kept control is already part of the current SetControls call
}

func (u *ctrlReuse) control(c CtrlRec) (gldap.Control, error) {
	if u == nil || c.Kind != "paging" || u.used {
		return MakeControl(c)
	}
	u.used = true
	if u.paging == nil {
		p, err := gldap.NewControlPaging(c.PageSize)
		if err != nil {
			return nil, err
		}
		u.buf = make([]byte, len(c.Cookie), 64)
		copy(u.buf, c.Cookie)
		if len(c.Cookie) > 0 {
			p.SetCookie(u.buf)
		}
		u.paging = p
		return p, nil
	}
	u.paging.PagingSize = c.PageSize
	if len(c.Cookie) > 0 && len(c.Cookie) <= cap(u.buf) {
		u.buf = u.buf[:len(c.Cookie)]
		copy(u.buf, c.Cookie)
		u.paging.SetCookie(u.buf)
	} else {
		u.buf = append([]byte(nil), c.Cookie...)
		u.paging.SetCookie(u.buf)
	}
	return u.paging, nil
}

// Build constructs the response through gldap's public API. It returns nil
// and the recovered value if the constructor panicked (C16's subject, not
// C04's: no response exists).
func (sp *RespSpec) Build(r *gldap.Request, reuse *ctrlReuse) (resp gldap.Response, again func(), panicked interface{}) {
	defer func() {
		if p := recover(); p != nil {
			resp, again, panicked = nil, nil, p
		}
	}()
	var opts []gldap.Option
	if sp.HasCode {
		opts = append(opts, gldap.WithResponseCode(sp.Code))
	}
	if sp.HasDiag {
		opts = append(opts, gldap.WithDiagnosticMessage(sp.Diag))
	}
	if sp.HasMatched {
		opts = append(opts, gldap.WithMatchedDN(sp.Matched))
	}
	if sp.HasApp {
		opts = append(opts, gldap.WithApplicationCode(sp.App))
	}
	type base interface {
		SetResultCode(int)
		SetDiagnosticMessage(string)
		SetMatchedDN(string)
	}
	var b base
	var setCtrls func(...gldap.Control)
	var setName func(gldap.ExtendedOperationName)
	var entry *gldap.SearchResponseEntry
	switch sp.Ctor {
	case "bind":
		x := r.NewBindResponse(opts...)
		resp, b, setCtrls = x, x, x.SetControls
	case "searchdone":
		x := r.NewSearchDoneResponse(opts...)
		resp, b, setCtrls = x, x, x.SetControls
	case "extended":
		x := r.NewExtendedResponse(opts...)
		resp, b = x, x
		setName = x.SetResponseName
	case "general":
		x := r.NewResponse(opts...)
		resp, b = x, x
	case "modify":
		x := r.NewModifyResponse(opts...)
		resp, b = x, x
	case "entry":
		if sp.WithAttrs != nil {
			opts = append(opts, gldap.WithAttributes(sp.WithAttrs))
		}
		entry = r.NewSearchResponseEntry(sp.EntryDN, opts...)
		resp = entry
	}
	apply := func(list []Setter) {
		for _, s := range list {
			switch s.Kind {
			case "code":
				b.SetResultCode(s.Code)
			case "diag":
				b.SetDiagnosticMessage(s.Str)
			case "matched":
				b.SetMatchedDN(s.Str)
			case "respname":
				if setName != nil {
					setName(gldap.ExtendedOperationName(s.Str))
				}
			case "controls":
				var cs []gldap.Control
				if reuse != nil {
					reuse.used = false
				}
				for _, c := range s.Ctrl {
					gc, err := reuse.control(c)
					if err != nil {
						panic(fmt.Sprintf("sim: control constructor refused %v: %v", c, err))
					}
					cs = append(cs, gc)
				}
				setCtrls(cs...)
			case "addattr":
				entry.AddAttribute(s.Attr.Type, s.Attr.Vals)
			}
		}
	}
	apply(sp.Setters)
	if len(sp.Again) > 0 {
		again = func() { apply(sp.Again) }
	}
	return resp, again, nil
}

// ---- generation ----------------------------------------------------------------

func (g *Gen) code() int {
	switch g.Ch.Choose(4) {
	case 0:
		return 0
	case 1:
		return []int{32, 49, 53, 68, 80, 1, 2, 10, 16}[g.Ch.Choose(9)]
	case 2:
		return g.Ch.Choose(128)
	}
	return []int{32767, 32766, 255, 256, 128, 127, 4096}[g.Ch.Choose(7)] - g.Ch.Choose(2)*0
}

// Resp draws a response specification suitable for answering op.
// final selects the closing response of the operation; otherwise (search
// only) an entry.
func (g *Gen) Resp(op string, final bool, rich bool) *RespSpec {
	sp := &RespSpec{}
	if op == "search" && !final {
		sp.Ctor = "entry"
		sp.EntryDN = g.Str()
		if rich {
			if g.Ch.Choose(2) == 1 {
				sp.WithAttrs = map[string][]string{}
				n := 1 + g.Ch.Choose(3)
				for i := 0; i < n; i++ {
					sp.WithAttrs[g.Name()+fmt.Sprint(i)] = g.Vals(3)
				}
			}
			n := g.Ch.Choose(4)
			for i := 0; i < n; i++ {
				sp.Setters = append(sp.Setters, Setter{Kind: "addattr", Attr: AttrRec{Type: g.Str(), Vals: g.Vals(3)}})
			}
		}
		return sp
	}
	switch op {
	case "bind":
		sp.Ctor = "bind"
	case "search":
		sp.Ctor = "searchdone"
	case "modify":
		sp.Ctor = "modify"
		if g.Ch.Choose(4) == 3 {
			sp.Ctor = "general"
			sp.HasApp, sp.App = true, 7
		}
	case "add":
		sp.Ctor, sp.HasApp, sp.App = "general", true, 9
	case "delete":
		sp.Ctor, sp.HasApp, sp.App = "general", true, 11
	default:
		sp.Ctor = "extended"
		if g.Ch.Choose(4) == 3 {
			sp.Ctor = "general"
			sp.HasApp, sp.App = true, 24
		}
	}
	sp.HasCode, sp.Code = true, 0
	if !rich {
		return sp
	}
	if g.Ch.Choose(8) == 7 && sp.Ctor != "modify" {
		sp.HasCode = false
	} else {
		sp.Code = g.code()
	}
	if g.Ch.Choose(3) == 1 {
		sp.HasDiag, sp.Diag = true, g.Str()
	}
	if g.Ch.Choose(3) == 1 {
		sp.HasMatched, sp.Matched = true, g.Str()
	}
	if sp.Ctor == "general" && g.Ch.Choose(4) == 3 {
		sp.App = g.Ch.Choose(31)
		if sp.App == 4 {
			sp.App = 5 // tag 4 is SearchResultEntry, whose body is not an LDAPResult
		}
	}
	n := g.Ch.Choose(4)
	for i := 0; i < n; i++ {
		switch g.Ch.Choose(3) {
		case 0:
			sp.Setters = append(sp.Setters, Setter{Kind: "code", Code: g.code()})
		case 1:
			sp.Setters = append(sp.Setters, Setter{Kind: "diag", Str: g.Str()})
		case 2:
			sp.Setters = append(sp.Setters, Setter{Kind: "matched", Str: g.Str()})
		}
	}
	if sp.Ctor == "extended" && g.Ch.Choose(3) == 2 {
		// SetResponseName: not among the values C04 lists, but the frame must
		// stay a well-formed LDAPResult with the values that are
		sp.Setters = append(sp.Setters, Setter{Kind: "respname", Str: []string{"1.3.6.1.4.1.1466.20037", "1.3.6.1.4.1.4203.1.11.3", ""}[g.Ch.Choose(3)]})
	}
	if g.Ch.Choose(6) == 5 {
		// written once, changed, written again (as a handler does that
		// reports progress and then the final result)
		sp.Again = []Setter{{Kind: "code", Code: g.code()}, {Kind: "diag", Str: g.Str()}}
	}
	if (sp.Ctor == "bind" || sp.Ctor == "searchdone") && g.Ch.Choose(2) == 1 {
		// SetControls replaces: the last call decides (possibly with none)
		for k, calls := 0, 1+g.Ch.Choose(2); k < calls; k++ {
			n := 1 + g.Ch.Choose(3)
			if k > 0 {
				n = g.Ch.Choose(3)
			}
			cs := []CtrlRec{}
			for i := 0; i < n; i++ {
				cs = append(cs, g.Control())
			}
			sp.Setters = append(sp.Setters, Setter{Kind: "controls", Ctrl: cs})
		}
	}
	return sp
}
