package sim

import (
	"crypto/tls"
	"encoding/json"
	"fmt"
	"net"
	"os"
	"runtime"
	"runtime/debug"
	"sort"
	"strings"
	"sync/atomic"
	"testing"
	"testing/cryptotest"
	"testing/synctest"
	"time"

	ldap "github.com/go-ldap/ldap/v3"
	"github.com/jimlambrt/gldap/simrt"
)

// WorkerCfg is passed by cmd/verif in VERIF_WORKER (JSON).
type WorkerCfg struct {
	Prop     string   `json:"prop"`
	Tier     string   `json:"tier"`
	Seed     uint64   `json:"seed"`
	From     int      `json:"from"`
	Count    int      `json:"count"`
	Stride   int      `json:"stride"`
	Out      string   `json:"out"`
	Replay   []uint32 `json:"replay"`
	IsReplay bool     `json:"is_replay"`
	Verbose  bool     `json:"verbose"`
	Lean     bool     `json:"lean"`
	MaxSteps int      `json:"max_steps"`
	WallS    float64  `json:"wall_s"`
	Samples  int      `json:"samples"`
	EventLog bool     `json:"event_log"`
}

// RunResult is one line of the worker's output.
type RunResult struct {
	Type     string         `json:"type"` // start | run | summary
	I        int            `json:"i"`
	RunSeed  uint64         `json:"run_seed,omitempty"`
	Viol     []Violation    `json:"viol,omitempty"`
	Choices  []uint32       `json:"choices,omitempty"`
	Trace    []string       `json:"trace,omitempty"`
	Config   string         `json:"config,omitempty"`
	Steps    int            `json:"steps,omitempty"`
	Sig      string         `json:"sig,omitempty"`
	Harness  string         `json:"harness_error,omitempty"`
	Leak     string         `json:"leak,omitempty"`
	EventLog []string       `json:"event_log,omitempty"`
	Summary  *WorkerSummary `json:"summary,omitempty"`
}

type WorkerSummary struct {
	Runs       int            `json:"runs"`
	Nontrivial int            `json:"nontrivial"`
	Sigs       []string       `json:"sigs"`
	Steps      int64          `json:"steps"`
	SimTimeMS  int64          `json:"sim_time_ms"`
	StepCaps   int            `json:"step_caps"`
	Leaks      int            `json:"leaks"`
	Probes     map[string]int `json:"probes"`
	Faults     map[string]int `json:"faults"`
	WallS      float64        `json:"wall_s"`
	Samples    []interface{}  `json:"samples"`
	Final      bool           `json:"final"`
}

func runSeed(seed uint64, i int) uint64 {
	x := seed*0x9E3779B97F4A7C15 + uint64(i)*0xBF58476D1CE4E5B9 + 0x94D049BB133111EB
	x ^= x >> 30
	x *= 0xBF58476D1CE4E5B9
	x ^= x >> 27
	x *= 0x94D049BB133111EB
	x ^= x >> 31
	return x
}

var progress, curRun atomic.Int64

const simrtRace = simrt.RaceBuild

func TestWorker(t *testing.T) {
	raw := os.Getenv("VERIF_WORKER")
	if raw == "" {
		t.Skip("VERIF_WORKER not set")
	}
	var cfg WorkerCfg
	if err := json.Unmarshal([]byte(raw), &cfg); err != nil {
		fmt.Fprintln(os.Stderr, "worker: bad VERIF_WORKER:", err)
		os.Exit(2)
	}
	out, err := os.OpenFile(cfg.Out, os.O_CREATE|os.O_WRONLY|os.O_APPEND, 0o644)
	if err != nil {
		fmt.Fprintln(os.Stderr, "worker:", err)
		os.Exit(2)
	}
	emit := func(r *RunResult) {
		b, _ := json.Marshal(r)
		out.Write(append(b, '\n'))
	}
	// watchdog outside any bubble: a run that makes no progress over 45
	// consecutive two-second polls is tool trouble (exit 3), never a
	// violation. Polls are counted, not wall-clock differences: a process
	// that was frozen for a while (a suspended or snapshotted machine) sees
	// one long poll, not ninety seconds of standstill. (A verdict "gldap
	// spins without reaching a yield point" was tried here and taken out
	// again: it was a false alarm on a healthy worker. Spinning that does
	// reach yield points is judged deterministically at the step cap.)
	go func() {
		last, stale := int64(-1), 0
		for {
			time.Sleep(2 * time.Second)
			p := progress.Load()
			if p != last {
				last, stale = p, 0
				continue
			}
			if stale++; stale >= 45 {
				buf := make([]byte, 4<<20)
				n := runtime.Stack(buf, true)
				fmt.Fprintf(os.Stderr, "worker: WATCHDOG no progress over %d polls (run %d)\n%s\n", stale, curRun.Load(), buf[:n])
				os.Exit(3)
			}
		}
	}()
	if cfg.Stride <= 0 {
		cfg.Stride = 1
	}
	prewarm()
	sum := &WorkerSummary{Probes: map[string]int{}, Faults: map[string]int{}}
	sigs := map[string]bool{}
	start := time.Now()
	// statistics are written as deltas every few hundred runs, so that a worker
	// death (which C02 and C07 provoke on purpose) loses little
	flushEvery := 400
	if cfg.Prop == "C07" || cfg.Prop == "C02" {
		flushEvery = 10
	}
	flush := func(final bool) {
		for s := range sigs {
			sum.Sigs = append(sum.Sigs, s)
		}
		sort.Strings(sum.Sigs)
		sum.Nontrivial = len(sum.Sigs)
		sum.WallS = time.Since(start).Seconds()
		sum.Final = final
		emit(&RunResult{Type: "summary", Summary: sum})
		sum = &WorkerSummary{Probes: map[string]int{}, Faults: map[string]int{}}
		sigs = map[string]bool{}
	}
	for k := 0; k < cfg.Count; k++ {
		i := cfg.From + k*cfg.Stride
		if cfg.WallS > 0 && time.Since(start).Seconds() > cfg.WallS {
			break
		}
		emit(&RunResult{Type: "start", I: i})
		curRun.Store(int64(i))
		if simrtRace {
			fmt.Fprintf(os.Stderr, "\n@@RUN %d\n", i)
		}
		rs := runSeed(cfg.Seed, i)
		verbose := cfg.Verbose || k < cfg.Samples
		// each run gets its own goroutine: if the testing package ends the
		// synctest sub-test with Goexit (it does after a race report), only
		// that goroutine goes
		var res *RunResult
		var st *runStats
		done := make(chan struct{})
		go func() {
			defer close(done)
			res, st = runOne(t, &cfg, rs, verbose, i)
		}()
		<-done
		if res == nil {
			res = &RunResult{Type: "run"}
		}
		res.I, res.RunSeed = i, rs
		progress.Add(1)
		sum.Runs++
		if st != nil {
			sum.Steps += int64(st.steps)
			sum.SimTimeMS += st.simTime.Milliseconds()
			if st.stepCap {
				sum.StepCaps++
			}
			for k, v := range st.probes {
				if strings.HasSuffix(k, "-total") {
					sum.Probes[k] = v // a constant of the scenario, not a counter
					continue
				}
				sum.Probes[k] += v
			}
			for k, v := range st.faults {
				sum.Faults[k] += v
			}
			if st.nontrivial {
				if !sigs[res.Sig] {
					sigs[res.Sig] = true
				}
			}
			if k < cfg.Samples {
				tr := res.Trace
				if len(tr) > 60 {
					tr = append(append([]string{}, tr[:40]...), fmt.Sprintf("... %d more lines", len(tr)-40))
				}
				sum.Samples = append(sum.Samples, map[string]interface{}{"run": i, "config": res.Config, "steps": st.steps, "schedule": tr})
			}
		}
		if res.Leak != "" {
			sum.Leaks++
		}
		if len(res.Viol) > 0 || res.Harness != "" || res.Leak != "" || cfg.IsReplay || cfg.EventLog {
			if !cfg.Verbose && !cfg.IsReplay {
				res.Trace = nil
			}
			emit(res)
		}
		if sum.Runs >= flushEvery {
			flush(false)
		}
	}
	flush(true)
	out.Close()
}

type runStats struct {
	steps      int
	simTime    time.Duration
	stepCap    bool
	probes     map[string]int
	faults     map[string]int
	nontrivial bool
}

func runOne(t *testing.T, cfg *WorkerCfg, rs uint64, verbose bool, runIndex int) (res *RunResult, st *runStats) {
	res = &RunResult{Type: "run"}
	defer func() {
		if p := recover(); p != nil {
			msg := fmt.Sprint(p)
			if strings.Contains(msg, "blocked goroutines remain") || strings.Contains(msg, "deadlock") {
				res.Leak = msg
				if os.Getenv("VERIF_DEBUG_LEAK") != "" {
					buf := make([]byte, 1<<20)
					n := runtime.Stack(buf, true)
					fmt.Fprintf(os.Stderr, "LEAK %s\n%s\n", msg, buf[:n])
				}
				return
			}
			res.Harness = msg + "\n" + string(debug.Stack())
		}
	}()
	cryptotest.SetGlobalRandom(t, rs)
	synctest.Test(t, func(t *testing.T) {
		var ch *Chooser
		if cfg.IsReplay {
			ch = NewReplayChooser(cfg.Replay)
		} else {
			ch = NewChooser(rs)
		}
		s := NewSim(ch)
		s.Verbose = verbose
		s.RunIndex = runIndex
		if cfg.MaxSteps > 0 {
			s.MaxSteps = cfg.MaxSteps
		}
		sc, desc := BuildScenario(cfg.Prop, cfg.Tier, ch, cfg.Lean, s)
		res.Config = desc
		func() {
			defer func() {
				if p := recover(); p != nil {
					res.Harness = fmt.Sprint(p) + "\n" + string(debug.Stack())
				}
			}()
			s.Run(sc)
		}()
		res.Viol = s.Viol
		res.Steps = s.Steps
		res.Sig = fmt.Sprintf("%016x", s.Signature())
		res.Choices = ch.Rec
		res.Trace = s.Trace
		if cfg.EventLog {
			for _, e := range s.History {
				res.EventLog = append(res.EventLog, fmt.Sprintf("%d %s c=%d m=%d a=%d b=%d %s", e.Step, e.Kind, e.Conn, e.Msg, e.A, e.B, firstLine(e.S)))
			}
		}
		st = &runStats{steps: s.Steps, simTime: time.Since(s.Start), stepCap: s.StepCap, probes: s.Probes, faults: s.Faults}
		st.nontrivial = Nontrivial(cfg.Prop, s)
	})
	return res, st
}

func firstLine(s string) string {
	if i := strings.IndexByte(s, '\n'); i >= 0 {
		return s[:i]
	}
	return s
}

// prewarm runs every lazy initialisation of the libraries (godebug settings,
// certificate pools, the harness PKI, TLS internals) once on the test's own
// goroutine, before any bubble exists: everything started later then
// happens-after it. Otherwise the first simulated goroutine to need one of
// them would initialise it, possibly inside a region where the race detector
// ignores synchronisation, and a later reader would be reported as racing.
func prewarm() {
	p := getPKI()
	_ = p
	time.NewTimer(time.Hour).Stop()
	a, b := net.Pipe()
	done := make(chan error, 1)
	go func() {
		sc := tls.Server(a, serverTLS(2))
		err := sc.Handshake()
		if err == nil {
			buf := make([]byte, 1)
			_, err = sc.Read(buf)
		}
		done <- err
		a.Close()
	}()
	cc := tls.Client(b, clientTLS(""))
	if err := cc.Handshake(); err == nil {
		cc.Write([]byte{1})
	}
	<-done
	b.Close()
	_, _ = ldap.CompileFilter("(cn=x)")
}
