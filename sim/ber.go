package sim

import (
	"errors"
	"fmt"
)

// A BER encoder and a strict definite-length parser written from X.690 and
// RFC 4511 directly. They share nothing with gldap's packet.go/testing.go or
// with asn1-ber, so that they can serve as an independent reference.

const (
	clsUniversal = 0
	clsApp       = 1
	clsCtx       = 2
	clsPrivate   = 3
)

// TLV is one BER node.
type TLV struct {
	Cls  int
	Cons bool
	Tag  int
	Val  []byte // primitive contents
	Kids []*TLV // constructed contents
	// RawLen, if non-nil, replaces the length octets (used for corrupt frames).
	RawLen []byte
	// Wrap: the children are encoded and carried as the contents of a
	// primitive node (an OCTET STRING holding BER, as control values do).
	Wrap bool
}

func (t *TLV) clone() *TLV {
	c := *t
	c.Val = append([]byte(nil), t.Val...)
	c.Kids = make([]*TLV, len(t.Kids))
	for i, k := range t.Kids {
		c.Kids[i] = k.clone()
	}
	return &c
}

func encLen(n int) []byte {
	if n < 128 {
		return []byte{byte(n)}
	}
	var b []byte
	for x := n; x > 0; x >>= 8 {
		b = append([]byte{byte(x)}, b...)
	}
	return append([]byte{0x80 | byte(len(b))}, b...)
}

// Enc returns the DER-style encoding (definite lengths, minimal).
func (t *TLV) Enc() []byte {
	var body []byte
	if t.Cons || t.Wrap {
		for _, k := range t.Kids {
			body = append(body, k.Enc()...)
		}
	} else {
		body = t.Val
	}
	id := byte(t.Cls << 6)
	if t.Cons && !t.Wrap {
		id |= 0x20
	}
	var out []byte
	if t.Tag < 31 {
		out = append(out, id|byte(t.Tag))
	} else {
		out = append(out, id|31)
		var tb []byte
		for x := t.Tag; ; x >>= 7 {
			tb = append([]byte{byte(x & 0x7f)}, tb...)
			if x>>7 == 0 {
				break
			}
		}
		for i := 0; i < len(tb)-1; i++ {
			tb[i] |= 0x80
		}
		out = append(out, tb...)
	}
	if t.RawLen != nil {
		out = append(out, t.RawLen...)
	} else {
		out = append(out, encLen(len(body))...)
	}
	return append(out, body...)
}

func encInt(n int64) []byte {
	// minimal two's complement
	b := []byte{byte(n)}
	for x := n >> 8; !((x == 0 && b[0]&0x80 == 0) || (x == -1 && b[0]&0x80 != 0)); x >>= 8 {
		b = append([]byte{byte(x)}, b...)
	}
	return b
}

func decInt(b []byte) (int64, error) {
	if len(b) == 0 || len(b) > 8 {
		return 0, fmt.Errorf("integer of %d bytes", len(b))
	}
	var n int64
	if b[0]&0x80 != 0 {
		n = -1
	}
	for _, x := range b {
		n = n<<8 | int64(x)
	}
	return n, nil
}

func tSeq(kids ...*TLV) *TLV { return &TLV{Cls: clsUniversal, Cons: true, Tag: 16, Kids: kids} }
func tSet(kids ...*TLV) *TLV { return &TLV{Cls: clsUniversal, Cons: true, Tag: 17, Kids: kids} }
func tOctet(s string) *TLV   { return &TLV{Cls: clsUniversal, Tag: 4, Val: []byte(s)} }
func tInt(n int64) *TLV      { return &TLV{Cls: clsUniversal, Tag: 2, Val: encInt(n)} }
func tEnum(n int64) *TLV     { return &TLV{Cls: clsUniversal, Tag: 10, Val: encInt(n)} }
func tNull() *TLV            { return &TLV{Cls: clsUniversal, Tag: 5} }
func tBool(b bool) *TLV {
	v := byte(0)
	if b {
		v = 0xff
	}
	return &TLV{Cls: clsUniversal, Tag: 1, Val: []byte{v}}
}
func tWrap(kids ...*TLV) *TLV          { return &TLV{Cls: clsUniversal, Tag: 4, Wrap: true, Kids: kids} }
func tCtxPrim(tag int, v []byte) *TLV  { return &TLV{Cls: clsCtx, Tag: tag, Val: v} }
func tCtxCons(tag int, k ...*TLV) *TLV { return &TLV{Cls: clsCtx, Cons: true, Tag: tag, Kids: k} }
func tApp(tag int, k ...*TLV) *TLV     { return &TLV{Cls: clsApp, Cons: true, Tag: tag, Kids: k} }
func tAppPrim(tag int, v []byte) *TLV  { return &TLV{Cls: clsApp, Tag: tag, Val: v} }
func tRaw(cls int, cons bool, tag int, v []byte) *TLV {
	return &TLV{Cls: cls, Cons: cons, Tag: tag, Val: v}
}

var errShort = errors.New("short")

// parseHeader returns header length and content length; errShort if the
// header is incomplete.
func parseHeader(b []byte) (cls int, cons bool, tag int, hl int, cl int, err error) {
	if len(b) < 2 {
		return 0, false, 0, 0, 0, errShort
	}
	cls = int(b[0] >> 6)
	cons = b[0]&0x20 != 0
	tag = int(b[0] & 0x1f)
	i := 1
	if tag == 31 {
		tag = 0
		for {
			if i >= len(b) {
				return 0, false, 0, 0, 0, errShort
			}
			tag = tag<<7 | int(b[i]&0x7f)
			more := b[i]&0x80 != 0
			i++
			if !more {
				break
			}
			if tag > 1<<24 {
				return 0, false, 0, 0, 0, errors.New("tag too large")
			}
		}
	}
	if i >= len(b) {
		return 0, false, 0, 0, 0, errShort
	}
	l := b[i]
	i++
	switch {
	case l < 0x80:
		cl = int(l)
	case l == 0x80:
		return 0, false, 0, 0, 0, errors.New("indefinite length")
	default:
		n := int(l & 0x7f)
		if n > 4 {
			return 0, false, 0, 0, 0, errors.New("length too large")
		}
		if i+n > len(b) {
			return 0, false, 0, 0, 0, errShort
		}
		for k := 0; k < n; k++ {
			cl = cl<<8 | int(b[i+k])
		}
		i += n
	}
	return cls, cons, tag, i, cl, nil
}

// ParseTLV parses exactly one node from b and requires that nothing follows.
func ParseTLV(b []byte) (*TLV, error) {
	t, rest, err := parseOne(b)
	if err != nil {
		return nil, err
	}
	if len(rest) != 0 {
		return nil, fmt.Errorf("%d trailing bytes", len(rest))
	}
	return t, nil
}

func parseOne(b []byte) (*TLV, []byte, error) {
	cls, cons, tag, hl, cl, err := parseHeader(b)
	if err != nil {
		return nil, nil, err
	}
	if hl+cl > len(b) {
		return nil, nil, errShort
	}
	t := &TLV{Cls: cls, Cons: cons, Tag: tag}
	body := b[hl : hl+cl]
	if cons {
		for len(body) > 0 {
			k, rest, err := parseOne(body)
			if err != nil {
				if err == errShort {
					err = errors.New("child overruns parent")
				}
				return nil, nil, err
			}
			t.Kids = append(t.Kids, k)
			body = rest
		}
	} else {
		t.Val = append([]byte(nil), body...)
	}
	return t, b[hl+cl:], nil
}

// FrameLen returns the total length of the first TLV in b, 0 if the header is
// still incomplete, or an error if the header is not acceptable BER.
func FrameLen(b []byte) (int, error) {
	_, _, _, hl, cl, err := parseHeader(b)
	if err == errShort {
		return 0, nil
	}
	if err != nil {
		return 0, err
	}
	return hl + cl, nil
}

func (t *TLV) is(cls int, cons bool, tag int) bool {
	return t != nil && t.Cls == cls && t.Cons == cons && t.Tag == tag
}

func (t *TLV) String() string {
	if t == nil {
		return "<nil>"
	}
	c := "UACP"[t.Cls : t.Cls+1]
	if t.Cons {
		s := fmt.Sprintf("%s%d{", c, t.Tag)
		for i, k := range t.Kids {
			if i > 0 {
				s += ","
			}
			s += k.String()
		}
		return s + "}"
	}
	if len(t.Val) > 12 {
		return fmt.Sprintf("%s%d:%x..(%d)", c, t.Tag, t.Val[:12], len(t.Val))
	}
	return fmt.Sprintf("%s%d:%x", c, t.Tag, t.Val)
}
