package sim

import (
	"crypto/tls"
	"crypto/x509"
	"errors"
	"fmt"
	"net"
	"runtime"
	"sort"
	"strings"

	ldap "github.com/go-ldap/ldap/v3"
	"github.com/hashicorp/go-hclog"
	"github.com/jimlambrt/gldap"
	"github.com/jimlambrt/gldap/simrt"
	"github.com/jimlambrt/gldap/testdirectory"
)

// S-dir: a testdirectory.Directory started with Start inside the bubble, and
// go-ldap clients that issue one operation at a time (C19, C20; also part of
// the C15 workload, where Set* and getters run while handlers are in flight).

type dirT struct{}

func (dirT) Errorf(format string, args ...interface{}) {
	simrt.Emit("t-errorf", 0, 0, 0, 0, fmt.Sprintf(format, args...), nil)
}
func (dirT) FailNow() {
	simrt.Emit("t-failnow", 0, 0, 0, 0, "", nil)
	runtime.Goexit()
}
func (dirT) Log(args ...interface{}) {}

type dEntry struct {
	DN    string
	Attrs map[string][]string
}

func (e dEntry) clone() dEntry {
	c := dEntry{DN: e.DN, Attrs: map[string][]string{}}
	for k, v := range e.Attrs {
		c.Attrs[k] = append([]string(nil), v...)
	}
	return c
}

func (e dEntry) entry() *gldap.Entry { return gldap.NewEntry(e.DN, e.clone().Attrs) }

type dOp struct {
	Kind    string // bind search-user search-group add delete modify set-users set-groups set-anon set-controls get
	Client  int
	DN      string
	PW      string
	Attrs   map[string][]string
	Changes []ChangeRec
	Users   []dEntry
	Anon    bool
	Sub     []dOp // bind-burst: binds issued at the same time, each by its own client
}

type dResult struct {
	Code    int
	Err     string
	Entries []dEntry
	Sub     []dResult
}

type dClient struct {
	Flavour int // 0 plain, 1 tls, 2 starttls
	conn    *ldap.Conn
	ep      *simrt.Conn
}

// Dir is the S-dir scenario.
type Dir struct {
	Prop    string
	Lean    bool
	NoTLS   bool
	MTLS    bool
	Anon    bool
	Users   []dEntry
	Groups  []dEntry
	Clients []*dClient
	Ops     []dOp
	Meddle  bool             // C15: a second task calls Set* and getters while operations are in flight
	Stall   bool             // C20, plain listener: one more client asks for every user and never reads a byte of the answer
	sibling *tls.Certificate // C18: client certificate of another GetTLSConfig(WithMTLS) call

	// model (scheduler only)
	mUsers   []dEntry
	mGroups  []dEntry
	mAnon    bool
	opsDone  int
	inflight int // index of the operation in flight, -1 none
	faults   int
	dead     map[int]bool
	started  bool
	stalled  bool
	failed   string
	d        *testdirectory.Directory
	stopped  bool
}

const (
	dirUserDN  = "ou=people,dc=example,dc=org"
	dirGroupDN = "ou=groups,dc=example,dc=org"
)

func userDN(i int) string {
	if i == 5 {
		return "cn=zo\u00eb05," + dirUserDN // a DN with a non-ASCII character
	}
	return fmt.Sprintf("cn=user%02d,%s", i, dirUserDN)
}
func groupDN(i int) string { return fmt.Sprintf("cn=group%02d,%s", i, dirGroupDN) }

var dirAttrNames = []string{"mail", "description", "sn", "telephoneNumber", "password"}

func drawAttrs(ch *Chooser, withPW bool) map[string][]string {
	a := map[string][]string{}
	n := ch.Choose(4)
	for i := 0; i < n; i++ {
		name := dirAttrNames[ch.Choose(4)]
		var v []string
		for j, k := 0, 1+ch.Choose(3); j < k; j++ {
			v = append(v, fmt.Sprintf("v%d", ch.Choose(50)))
		}
		a[name] = v
	}
	if withPW {
		a["password"] = []string{fmt.Sprintf("pw%d", ch.Choose(4))}
	}
	return a
}

// DrawDir draws the plan of one S-dir run.
func DrawDir(prop, tier string, ch *Chooser, lean bool, s *Sim) *Dir {
	d := &Dir{Prop: prop, Lean: lean}
	s.FragMode = ch.Choose(2)
	s.StickyPct = []int{0, 50, 90}[ch.Choose(3)]
	s.WRun, s.WDeliver, s.WHarness = 1+ch.Choose(8), 1+ch.Choose(6), 1+ch.Choose(4)
	switch ch.Choose(4) {
	case 0:
		d.NoTLS = true
	case 1:
		d.MTLS = true
	}
	d.Anon = ch.Choose(2) == 1
	nOps := 4 + ch.Choose(12)
	if tier == "thorough" {
		nOps = 4 + ch.Choose(36)
	}
	nClients := 1 + ch.Choose(3)
	for i := 0; i < nClients; i++ {
		c := &dClient{}
		if d.NoTLS {
			c.Flavour = []int{0, 2}[ch.Choose(2)]
		} else {
			c.Flavour = 1
		}
		d.Clients = append(d.Clients, c)
	}
	if prop == "C18" {
		// the test directory with WithMTLS: probes by clients that do and do
		// not satisfy it
		d.NoTLS, d.MTLS, d.Anon = false, true, true
		d.Clients = nil
		for i, n := 0, 4+ch.Choose(8); i < n; i++ {
			d.Ops = append(d.Ops, dOp{Kind: "probe", DN: []string{"valid", "nocert", "foreign", "valid", "plaintext", "starttls-in-session", "nocert", "foreign", "sibling"}[ch.Choose(9)]})
		}
		return d
	}
	if prop == "C19" {
		// user sets with DNs that are prefixes of one another, duplicates,
		// users without a password attribute, empty passwords
		dns := []string{"cn=a", "cn=ab", "cn=a,ou=people,dc=example,dc=org", "cn=a,ou=people", "uid=bob", "cn=a,ou=people,dc=example,dc=org,x", ""}
		pws := []string{"pw", "pw2", "", "p", "PW"}
		mkUsers := func() []dEntry {
			var us []dEntry
			for i, n := 0, ch.Choose(6); i < n; i++ {
				u := dEntry{DN: dns[ch.Choose(len(dns)-1)], Attrs: map[string][]string{"mail": {"m"}}}
				switch ch.Choose(5) {
				case 0:
				case 1:
					u.Attrs["password"] = []string{pws[ch.Choose(len(pws))], pws[ch.Choose(len(pws))]}
				case 2:
					u.Attrs["password"] = []string{}
				default:
					u.Attrs["password"] = []string{pws[ch.Choose(len(pws))]}
				}
				us = append(us, u)
			}
			return us
		}
		d.Users = mkUsers()
		for i := 0; i < nOps; i++ {
			switch ch.Choose(8) {
			case 0:
				d.Ops = append(d.Ops, dOp{Kind: "set-anon", Anon: ch.Choose(2) == 1})
			case 1:
				d.Ops = append(d.Ops, dOp{Kind: "set-users", Users: mkUsers()})
			case 2:
				// several clients bind at the same moment: each answer must be
				// the one its own credentials deserve
				b := dOp{Kind: "bind-burst"}
				for j, n := 0, 2+ch.Choose(3); j < n; j++ {
					b.Sub = append(b.Sub, dOp{Kind: "bind", Client: (j + ch.Choose(2)) % nClients, DN: dns[ch.Choose(len(dns))], PW: pws[ch.Choose(len(pws))]})
				}
				d.Ops = append(d.Ops, b)
			default:
				d.Ops = append(d.Ops, dOp{Kind: "bind", Client: ch.Choose(nClients), DN: dns[ch.Choose(len(dns))], PW: pws[ch.Choose(len(pws))]})
			}
		}
		return d
	}
	// C20 / C15: a pool of users and groups whose DNs are not substrings of one another
	pool := 6
	for i := 0; i < pool; i++ {
		if ch.Choose(2) == 1 {
			d.Users = append(d.Users, dEntry{DN: userDN(i), Attrs: drawAttrs(ch, true)})
		}
	}
	for i := 0; i < 3; i++ {
		if ch.Choose(2) == 1 {
			d.Groups = append(d.Groups, dEntry{DN: groupDN(i), Attrs: map[string][]string{"member": {userDN(ch.Choose(pool))}}})
		}
	}
	d.Meddle = prop == "C15"
	d.Stall = prop == "C20" && d.NoTLS && ch.Choose(5) == 4
	for i := 0; i < nOps; i++ {
		op := dOp{Client: ch.Choose(nClients)}
		switch ch.Choose(12) {
		case 0, 1:
			op.Kind, op.DN, op.Attrs = "add", userDN(ch.Choose(pool)), drawAttrs(ch, ch.Choose(2) == 1)
		case 2, 3:
			op.Kind = "delete"
			op.DN = userDN(ch.Choose(pool))
			if ch.Choose(4) == 0 {
				op.DN = groupDN(ch.Choose(3))
			}
		case 4, 5, 6:
			op.Kind, op.DN = "modify", userDN(ch.Choose(pool))
			for j, n := 0, 1+ch.Choose(2); j < n; j++ {
				c := ChangeRec{Op: int64(ch.Choose(3)), Type: dirAttrNames[ch.Choose(4)]}
				if c.Op != 1 {
					for k, m := 0, 1+ch.Choose(2); k < m; k++ {
						v := fmt.Sprintf("n%d", ch.Choose(50))
						if ch.Choose(8) == 7 {
							v += strings.Repeat("x", 126+ch.Choose(200)) // beyond a one-octet BER length
						}
						c.Vals = append(c.Vals, v)
					}
				}
				op.Changes = append(op.Changes, c)
			}
		case 7, 8, 9:
			op.Kind, op.DN = "search-user", userDN(ch.Choose(pool))
			if ch.Choose(3) == 2 {
				op.Kind = "search-dn" // base object search of the entry itself: the generic search route
			}
		case 10:
			op.Kind, op.DN = "search-group", groupDN(ch.Choose(3))
		default:
			switch ch.Choose(5) {
			case 4:
				// the caller keeps what Users() gave it, sets other users and
				// then puts the old ones back: nothing has changed
				op.Kind = "swap-users"
				for j := 0; j < pool; j++ {
					if ch.Choose(2) == 1 {
						op.Users = append(op.Users, dEntry{DN: userDN(j), Attrs: drawAttrs(ch, true)})
					}
				}
			case 3:
				op.Kind = "set-tokengroups" // concerns <SID=...> searches only
			case 0:
				op.Kind = "set-users"
				for j := 0; j < pool; j++ {
					if ch.Choose(2) == 1 {
						op.Users = append(op.Users, dEntry{DN: userDN(j), Attrs: drawAttrs(ch, true)})
					}
				}
			case 1:
				op.Kind = "set-groups"
				for j := 0; j < 3; j++ {
					if ch.Choose(2) == 1 {
						op.Users = append(op.Users, dEntry{DN: groupDN(j), Attrs: map[string][]string{"member": {userDN(ch.Choose(pool))}}})
					}
				}
			default:
				op.Kind, op.Anon = "set-anon", ch.Choose(2) == 1
			}
		}
		d.Ops = append(d.Ops, op)
	}
	return d
}

func (d *Dir) Describe() string {
	var k []string
	for _, o := range d.Ops {
		k = append(k, o.Kind)
	}
	return fmt.Sprintf("S-dir notls=%v mtls=%v anon=%v users=%d groups=%d clients=%d ops=%s", d.NoTLS, d.MTLS, d.Anon, len(d.Users), len(d.Groups), len(d.Clients), strings.Join(k, ","))
}

func entries(es []dEntry) []*gldap.Entry {
	out := []*gldap.Entry{}
	for _, e := range es {
		out = append(out, e.entry())
	}
	return out
}

func cloneAll(es []dEntry) []dEntry {
	var o []dEntry
	for _, e := range es {
		o = append(o, e.clone())
	}
	return o
}

func (d *Dir) Setup(s *Sim) {
	d.mUsers, d.mGroups, d.mAnon = cloneAll(d.Users), cloneAll(d.Groups), d.Anon
	d.inflight, d.dead = -1, map[int]bool{}
	s.W.TagEvents = true
	if s.Ch.Choose(3) == 2 {
		d.faults = 1
	}
	s.W.Go("driver", func() { d.drive(s.W) })
	if d.Meddle {
		s.W.Go("meddler", func() {
			for i := 0; i < 40; i++ {
				simrt.Park("task", "meddle", nil)
				dir := d.d
				if dir == nil {
					continue
				}
				switch i % 8 {
				case 0:
					_ = dir.Users()
				case 1:
					dir.SetAllowAnonymousBind(i%3 == 0)
				case 2:
					_ = dir.Groups()
				case 3:
					c, _ := gldap.NewControlString("1.2.3.4")
					dir.SetControls(c)
				case 4:
					_ = dir.Controls()
				case 5:
					_ = dir.AllowAnonymousBind()
				case 6:
					tg := map[string][]*gldap.Entry{}
					if i%16 == 6 {
						tg["S-1-1"] = []*gldap.Entry{gldap.NewEntry("cn=tg,ou=groups,dc=example,dc=org", map[string][]string{"cn": {"tg"}})}
					}
					dir.SetTokenGroups(tg)
				case 7:
					_ = dir.TokenGroups()
				}
			}
		})
	}
}

func codeOf(err error) (int, string) {
	if err == nil {
		return 0, ""
	}
	var le *ldap.Error
	if errors.As(err, &le) {
		return int(le.ResultCode), err.Error()
	}
	return -1, err.Error()
}

// drive runs on the "driver" task: start the directory, connect the clients,
// then issue the operations one at a time.
func (d *Dir) drive(w *simrt.World) {
	t := dirT{}
	opts := []testdirectory.Option{
		testdirectory.WithPort(t, 389), testdirectory.WithHost(t, "127.0.0.1"),
		testdirectory.WithLogger(t, newLogger(hclog.Error)),
		testdirectory.WithDefaults(t, &testdirectory.Defaults{Users: entries(d.Users), Groups: entries(d.Groups), AllowAnonymousBind: d.Anon}),
	}
	if d.NoTLS {
		opts = append(opts, testdirectory.WithNoTLS(t))
	}
	if d.MTLS {
		opts = append(opts, testdirectory.WithMTLS(t))
	}
	for _, op := range d.Ops {
		if op.Kind == "probe" && op.DN == "sibling" && d.sibling == nil {
			// the client certificate of another mTLS configuration made in
			// this process (a second directory's, say): issued by a CA of its
			// own, so this directory must not accept it
			_, cc := testdirectory.GetTLSConfig(t, testdirectory.WithMTLS(t))
			if len(cc.Certificates) > 0 {
				d.sibling = &cc.Certificates[0]
			}
		}
	}
	dir := testdirectory.Start(t, opts...)
	d.d = dir
	simrt.Emit("d-started", 0, 0, 0, 0, "", nil)
	tcfg := func() *tls.Config {
		pool := x509.NewCertPool()
		pool.AppendCertsFromPEM([]byte(dir.Cert()))
		c := &tls.Config{RootCAs: pool, ServerName: "127.0.0.1"}
		if d.MTLS {
			if kp, err := tls.X509KeyPair([]byte(dir.ClientCert()), []byte(dir.ClientKey())); err == nil {
				c.Certificates = []tls.Certificate{kp}
			}
		}
		return c
	}
	for i, c := range d.Clients {
		simrt.Park("task", "d-connect", nil)
		ep := w.Dial(389, false)
		if ep == nil {
			simrt.Emit("d-fail", i, 0, 0, 0, "connection refused", nil)
			return
		}
		c.ep = ep
		switch c.Flavour {
		case 1:
			tc := tls.Client(ep, tcfg())
			if err := tc.Handshake(); err != nil {
				simrt.Emit("d-fail", i, 0, 0, 0, "tls handshake: "+err.Error(), nil)
				return
			}
			c.conn = ldap.NewConn(tc, true)
			c.conn.Start()
		default:
			c.conn = ldap.NewConn(ep, false)
			c.conn.Start()
			if c.Flavour == 2 {
				if err := c.conn.StartTLS(tcfg()); err != nil {
					simrt.Emit("d-fail", i, 0, 0, 0, "starttls: "+err.Error(), nil)
					return
				}
			}
		}
	}
	for i := range d.Ops {
		op := &d.Ops[i]
		simrt.Park("task", "d-op", nil)
		simrt.Emit("d-op-start", i, 0, 0, 0, op.Kind, nil)
		res := &dResult{}
		var conn *ldap.Conn
		if op.Client < len(d.Clients) {
			conn = d.Clients[op.Client].conn
		}
		switch op.Kind {
		case "bind":
			_, err := conn.SimpleBind(&ldap.SimpleBindRequest{Username: op.DN, Password: op.PW, AllowEmptyPassword: true})
			res.Code, res.Err = codeOf(err)
		case "bind-burst":
			res.Sub = make([]dResult, len(op.Sub))
			done := make(chan struct{}, len(op.Sub))
			for j := range op.Sub {
				j, sub := j, op.Sub[j]
				w.Go(fmt.Sprintf("burst%d-%d", i, j), func() {
					defer func() { done <- struct{}{} }()
					if sub.Client >= len(d.Clients) || d.Clients[sub.Client].conn == nil {
						res.Sub[j] = dResult{Code: -1, Err: "no connection"}
						return
					}
					_, err := d.Clients[sub.Client].conn.SimpleBind(&ldap.SimpleBindRequest{Username: sub.DN, Password: sub.PW, AllowEmptyPassword: true})
					res.Sub[j].Code, res.Sub[j].Err = codeOf(err)
				})
			}
			for range op.Sub {
				<-done
			}
		case "add":
			ar := ldap.NewAddRequest(op.DN, nil)
			var names []string
			for n := range op.Attrs {
				names = append(names, n)
			}
			sort.Strings(names)
			for _, n := range names {
				ar.Attribute(n, op.Attrs[n])
			}
			res.Code, res.Err = codeOf(conn.Add(ar))
		case "delete":
			res.Code, res.Err = codeOf(conn.Del(ldap.NewDelRequest(op.DN, nil)))
		case "modify":
			mr := ldap.NewModifyRequest(op.DN, nil)
			for _, c := range op.Changes {
				switch c.Op {
				case 0:
					mr.Add(c.Type, c.Vals)
				case 1:
					mr.Delete(c.Type, c.Vals)
				case 2:
					mr.Replace(c.Type, c.Vals)
				}
			}
			res.Code, res.Err = codeOf(conn.Modify(mr))
		case "search-user", "search-group", "search-dn":
			base := dirUserDN
			if op.Kind == "search-group" {
				base = dirGroupDN
			}
			rdn := op.DN[:strings.Index(op.DN, ",")]
			sreq := ldap.NewSearchRequest(base, ldap.ScopeWholeSubtree, ldap.NeverDerefAliases, 0, 0, false, "("+rdn+")", nil, nil)
			if op.Kind == "search-dn" {
				sreq = ldap.NewSearchRequest(op.DN, ldap.ScopeBaseObject, ldap.NeverDerefAliases, 0, 0, false, "(objectClass=*)", nil, nil)
			}
			sr, err := conn.Search(sreq)
			res.Code, res.Err = codeOf(err)
			if sr != nil {
				for _, e := range sr.Entries {
					de := dEntry{DN: e.DN, Attrs: map[string][]string{}}
					for _, a := range e.Attributes {
						de.Attrs[a.Name] = append(de.Attrs[a.Name], a.Values...)
					}
					res.Entries = append(res.Entries, de)
				}
			}
		case "probe":
			res.Code, res.Err = d.probe(w, op.DN, tcfg())
		case "set-users":
			dir.SetUsers(entries(op.Users)...)
		case "set-groups":
			dir.SetGroups(entries(op.Users)...)
		case "set-anon":
			dir.SetAllowAnonymousBind(op.Anon)
		case "swap-users":
			saved := dir.Users()
			dir.SetUsers(entries(op.Users)...)
			dir.SetUsers(saved...)
		case "set-tokengroups":
			dir.SetTokenGroups(map[string][]*gldap.Entry{"S-1-1": {gldap.NewEntry("cn=tg,"+dirGroupDN, map[string][]string{"cn": {"tg"}})}})
		}
		simrt.Emit("d-op", i, 0, int64(res.Code), int64(len(res.Entries)), res.Err, res)
	}
	simrt.Park("task", "d-close", nil)
	for _, c := range d.Clients {
		if c.conn != nil {
			c.conn.Close()
		}
	}
	simrt.Park("task", "d-stop", nil)
	dir.Stop()
	simrt.Emit("d-stopped", 0, 0, 0, 0, "", nil)
}

// probe connects as the given kind of client, sends an anonymous bind (or, for
// starttls-in-session, a StartTLS request) and reports whether any LDAP
// response came back: Code 1 = a response was received (so a handler ran),
// 0 = the connection ended without one.
func (d *Dir) probe(w *simrt.World, kind string, valid *tls.Config) (int, string) {
	ep := w.Dial(389, false)
	if ep == nil {
		return -1, "connection refused"
	}
	defer ep.Close()
	var conn net.Conn = ep
	if kind != "plaintext" {
		cfg := valid.Clone()
		switch kind {
		case "nocert":
			cfg.Certificates = nil
		case "foreign":
			// force a certificate the server's CA did not issue onto the wire
			fc := getPKI().foreignCli
			cfg.Certificates = nil
			cfg.GetClientCertificate = func(*tls.CertificateRequestInfo) (*tls.Certificate, error) { return &fc, nil }
		case "sibling":
			sc := d.sibling
			if sc == nil {
				return -1, "no sibling certificate"
			}
			cfg.Certificates = nil
			cfg.GetClientCertificate = func(*tls.CertificateRequestInfo) (*tls.Certificate, error) { return sc, nil }
		}
		tc := tls.Client(ep, cfg)
		if err := tc.Handshake(); err != nil {
			return 0, "handshake: " + err.Error()
		}
		conn = tc
	}
	rec := &ReqRec{Op: "bind", MsgID: 1, BindVersion: 3}
	if kind == "starttls-in-session" {
		rec = &ReqRec{Op: "extended", MsgID: 1, BindVersion: 3, ExtName: oidStartTLS}
	}
	t, _ := rec.TLV()
	if _, err := conn.Write(t.Enc()); err != nil {
		return 0, "write: " + err.Error()
	}
	var acc []byte
	buf := make([]byte, 4096)
	for {
		n, err := conn.Read(buf)
		acc = append(acc, buf[:n]...)
		if l, ferr := FrameLen(acc); ferr == nil && l > 0 && len(acc) >= l {
			if _, perr := ParseResponse(acc[:l]); perr == nil {
				return 1, ""
			}
		}
		if err != nil {
			return 0, "read: " + err.Error()
		}
	}
}

func (d *Dir) Gate(p *simrt.Parked) bool { return true }

// Actions: the one fault of S-dir is a client whose connection is reset while
// its search is being answered (read-only, so the reference store is not
// affected); afterwards that client is dead and the others must still be served.
func (d *Dir) Actions(s *Sim, acts []Action) []Action {
	if d.Stall && d.started && !d.stalled && s.W.FindListener(389) != nil {
		acts = append(acts, Action{Class: clsFault, Key: "fault-stalled-reader", Weight: s.WFault, Do: func() {
			d.stalled = true
			ep := s.W.Dial(389, true)
			if ep == nil {
				return
			}
			s.Logf("FAULT a client searches for every user and never reads the answer")
			s.Fault("F5-client-stops-reading")
			ep.Peer.SetOutWindow(7)
			rec := &ReqRec{Op: "search", MsgID: 1, BindVersion: 3, DN: dirUserDN, Scope: 2, Filter: "(cn=*)"}
			if t, err := rec.TLV(); err == nil {
				ep.SendRaw(t.Enc())
			}
		}})
	}
	if d.faults <= 0 || d.inflight < 0 || d.inflight >= len(d.Ops) || d.Prop == "C19" || d.Prop == "C18" {
		return acts
	}
	op := d.Ops[d.inflight]
	if !strings.HasPrefix(op.Kind, "search") || op.Client >= len(d.Clients) || d.dead[op.Client] || len(d.Clients) < 2 {
		return acts
	}
	cl := d.Clients[op.Client]
	if cl.ep == nil {
		return acts
	}
	return append(acts, Action{Class: clsFault, Key: fmt.Sprintf("fault-reset dir-client %d", op.Client), Weight: s.WFault, Do: func() {
		s.Logf("FAULT reset of directory client %d during its search", op.Client)
		s.Fault("F4-client-reset")
		d.faults--
		d.dead[op.Client] = true
		cl.ep.Reset()
	}})
}

func (d *Dir) OnDelivered(s *Sim, ep *simrt.Conn) {}

func findEntry(es []dEntry, dn string) int {
	for i, e := range es {
		if e.DN == dn {
			return i
		}
	}
	return -1
}

// unwrapAttrs replaces every value that is a complete BER octet string by its
// contents.
func unwrapAttrs(a map[string][]string) map[string][]string {
	out := map[string][]string{}
	for n, vs := range a {
		var o []string
		for _, v := range vs {
			if t, err := ParseTLV([]byte(v)); err == nil && t.is(clsUniversal, false, 4) && len(v) > 0 {
				v = string(t.Val)
			}
			o = append(o, v)
		}
		out[n] = o
	}
	return out
}

func sameAttrs(a, b map[string][]string) string {
	var names []string
	for n := range a {
		names = append(names, n)
	}
	for n := range b {
		if _, ok := a[n]; !ok {
			names = append(names, n)
		}
	}
	sort.Strings(names)
	for _, n := range names {
		if !eqStrs(a[n], b[n]) {
			return fmt.Sprintf("attribute %q: found %q, model has %q", n, b[n], a[n])
		}
	}
	return ""
}

func (d *Dir) OnEvent(s *Sim, e *simrt.Event) {
	switch e.Kind {
	case "d-started":
		d.started = true
	case "d-stopped":
		d.stopped = true
	case "d-fail", "t-errorf", "t-failnow":
		if d.failed == "" {
			d.failed = e.Kind + ": " + e.S
		}
	case "d-op-start":
		d.inflight = e.Conn
	case "d-op":
		d.opsDone++
		d.inflight = -1
		if op := d.Ops[e.Conn]; op.Client < len(d.Clients) && d.dead[op.Client] && e.A != 0 && e.A != 32 && e.A != 49 && e.A != 68 {
			return // the operation of a client whose connection was reset: not judged
		}
		if d.Lean || d.Meddle {
			return // race build / meddler: the sequential model does not apply
		}
		res, _ := e.P.(*dResult)
		if res == nil {
			return
		}
		d.judge(s, &d.Ops[e.Conn], res)
	}
}

// judge compares one operation with the reference model, which is written
// from the statements of C19 and C20 and nothing beyond them.
func (d *Dir) judge(s *Sim, op *dOp, res *dResult) {
	switch op.Kind {
	case "set-users":
		d.mUsers = cloneAll(op.Users)
	case "set-groups":
		d.mGroups = cloneAll(op.Users)
	case "set-anon":
		d.mAnon = op.Anon
	case "probe":
		s.Probe("C18-offending-client-dir-" + op.DN)
		offending := op.DN == "nocert" || op.DN == "foreign" || op.DN == "plaintext" || op.DN == "sibling"
		switch {
		case offending && res.Code == 1:
			s.Violate("C18", "gate", "testdirectory-mtls client="+op.DN, fmt.Sprintf("a client that %s received an LDAP response from the WithMTLS test directory", map[string]string{"nocert": "presented no certificate", "foreign": "presented a certificate from another CA", "plaintext": "sent plaintext LDAP",
				"sibling": "presented the client certificate of another GetTLSConfig(WithMTLS) call, issued by that call's own CA"}[op.DN]))
		case !offending && res.Code != 1:
			s.Violate("C18", "isolated", "testdirectory-mtls conforming-client-rejected", fmt.Sprintf("a client with the directory's own client certificate got no response: %s", res.Err))
		}
	case "bind-burst":
		s.Probe("C19-concurrent-binds")
		for j := range op.Sub {
			if j < len(res.Sub) && res.Sub[j].Code >= 0 {
				d.judge(s, &op.Sub[j], &res.Sub[j])
			}
		}
	case "bind":
		s.Probe("C19-bind")
		class := "unknown-dn"
		want := false
		if op.PW == "" && d.mAnon {
			want = true
		}
		exact := false
		for _, u := range d.mUsers {
			if u.DN != op.DN {
				if u.DN != "" && op.DN != "" && (strings.HasPrefix(u.DN, op.DN) || strings.HasPrefix(op.DN, u.DN)) && !exact {
					class = "prefix-dn"
				}
				continue
			}
			exact = true
			pw := u.Attrs["password"]
			switch {
			case len(pw) > 0 && pw[0] == op.PW:
				want = true
				class = "correct-password"
			case class == "correct-password":
			case len(pw) == 0:
				class = "no-password-value"
			case len(pw) > 1 && pw[1] == op.PW:
				class = "second-password-value"
			default:
				class = "wrong-password"
			}
		}
		if op.PW == "" {
			class += fmt.Sprintf(" empty-password anon=%v", d.mAnon)
		}
		switch {
		case want && res.Code != 0:
			s.Violate("C19", "bind", "refused-wrongly "+class, fmt.Sprintf("bind dn=%q pw=%q: result %d (%s), the model says success", op.DN, op.PW, res.Code, res.Err))
		case !want && res.Code == 0:
			s.Violate("C19", "bind", "succeeded-wrongly "+class, fmt.Sprintf("bind dn=%q pw=%q succeeded; users: %v", op.DN, op.PW, d.mUsers))
		case !want && res.Code != 49:
			s.Violate("C19", "bind", fmt.Sprintf("wrong-result-code-%d %s", res.Code, class), fmt.Sprintf("bind dn=%q pw=%q: result %d (%s), want invalidCredentials (49)", op.DN, op.PW, res.Code, res.Err))
		}
	case "add":
		s.Probe("C20-add")
		if i := findEntry(d.mUsers, op.DN); i >= 0 {
			if res.Code != 68 {
				s.Violate("C20", "add-dup", fmt.Sprintf("result-code-%d", res.Code), fmt.Sprintf("add of existing %q: result %d (%s), want entryAlreadyExists (68)", op.DN, res.Code, res.Err))
			}
			if res.Code == 0 {
				d.mUsers = append(d.mUsers, dEntry{DN: op.DN, Attrs: op.Attrs}.clone())
			}
			return
		}
		if res.Code != 0 {
			s.Violate("C20", "add-found", fmt.Sprintf("add-refused-code-%d", res.Code), fmt.Sprintf("add of new %q: result %d (%s)", op.DN, res.Code, res.Err))
			return
		}
		d.mUsers = append(d.mUsers, dEntry{DN: op.DN, Attrs: op.Attrs}.clone())
	case "delete":
		s.Probe("C20-delete")
		iu, ig := findEntry(d.mUsers, op.DN), findEntry(d.mGroups, op.DN)
		switch {
		case iu >= 0:
			if res.Code != 0 {
				s.Violate("C20", "delete", fmt.Sprintf("delete-existing-user-code-%d", res.Code), fmt.Sprintf("delete %q: result %d (%s)", op.DN, res.Code, res.Err))
				return
			}
			d.mUsers = append(d.mUsers[:iu], d.mUsers[iu+1:]...)
		case ig >= 0:
			if res.Code != 0 {
				s.Violate("C20", "delete", fmt.Sprintf("delete-existing-group-code-%d", res.Code), fmt.Sprintf("delete %q: result %d (%s)", op.DN, res.Code, res.Err))
				return
			}
			d.mGroups = append(d.mGroups[:ig], d.mGroups[ig+1:]...)
		default:
			if res.Code != 32 {
				s.Violate("C20", "missing", fmt.Sprintf("delete-missing-code-%d", res.Code), fmt.Sprintf("delete of missing %q: result %d (%s), want noSuchObject (32)", op.DN, res.Code, res.Err))
			}
		}
	case "modify":
		s.Probe("C20-modify")
		i := findEntry(d.mUsers, op.DN)
		if i < 0 {
			if res.Code != 32 {
				s.Violate("C20", "missing", fmt.Sprintf("modify-missing-code-%d", res.Code), fmt.Sprintf("modify of missing %q: result %d (%s), want noSuchObject (32)", op.DN, res.Code, res.Err))
			}
			return
		}
		if res.Code != 0 {
			s.Violate("C20", "modify", fmt.Sprintf("modify-existing-code-%d", res.Code), fmt.Sprintf("modify %q: result %d (%s)", op.DN, res.Code, res.Err))
			return
		}
		u := d.mUsers[i]
		for _, c := range op.Changes {
			switch c.Op {
			case 0:
				u.Attrs[c.Type] = append(u.Attrs[c.Type], c.Vals...)
			case 1:
				delete(u.Attrs, c.Type)
			case 2:
				u.Attrs[c.Type] = append([]string(nil), c.Vals...)
			}
		}
	case "search-user", "search-group", "search-dn":
		s.Probe("C20-search")
		pool := d.mUsers
		if op.Kind == "search-group" {
			pool = d.mGroups
		}
		i := findEntry(pool, op.DN)
		var got *dEntry
		n := 0
		for k := range res.Entries {
			if res.Entries[k].DN == op.DN {
				got = &res.Entries[k]
				n++
			}
		}
		kind := strings.TrimPrefix(op.Kind, "search-")
		if i < 0 {
			if got != nil {
				s.Violate("C20", "delete", "absent-"+kind+"-found", fmt.Sprintf("search for %q, which the model does not contain, returned it: %v", op.DN, got.Attrs))
			}
			return
		}
		if got == nil {
			s.Violate("C20", "add-found", "present-"+kind+"-not-found", fmt.Sprintf("search for %q: result %d (%s), %d entries; the model contains it", op.DN, res.Code, res.Err, len(res.Entries)))
			return
		}
		if n > 1 {
			s.Violate("C20", "add-dup", "entry-returned-twice", fmt.Sprintf("search for %q returned it %d times", op.DN, n))
		}
		if diff := sameAttrs(pool[i].Attrs, got.Attrs); diff != "" {
			// Values that arrive as the BER encoding of the value the model
			// has are one (known) defect; anything that still differs once
			// they are unwrapped is another.
			if d2 := sameAttrs(pool[i].Attrs, unwrapAttrs(got.Attrs)); d2 != "" {
				s.Violate("C20", "modify", "attributes-differ", fmt.Sprintf("search for %q: %s", op.DN, d2))
			} else {
				s.Violate("C20", "modify", "attribute-value-ber-wrapped", fmt.Sprintf("search for %q: %s", op.DN, diff))
			}
		}
	}
}

func (d *Dir) Quiescent(s *Sim) bool { return false }

func (d *Dir) Finish(s *Sim) {
	if d.failed != "" && !s.StepCap {
		panic("sim: S-dir harness failure (not a verdict): " + d.failed)
	}
	if d.opsDone < len(d.Ops) && !s.StepCap && d.failed == "" {
		// an operation never completed: a client waited forever
		op := d.Ops[d.opsDone]
		prop := "C20"
		if op.Kind == "bind" {
			prop = "C19"
		}
		s.Violate(prop, "completes", "operation-never-completed "+op.Kind, fmt.Sprintf("operation %d (%s %q) had not returned at final quiescence", d.opsDone, op.Kind, op.DN))
	}
}

func (d *Dir) Teardown(s *Sim) {
	for _, c := range d.Clients {
		if c.ep != nil && !c.ep.IsReset() {
			c.ep.Reset()
		}
	}
	if d.d != nil && !d.stopped {
		dir := d.d
		s.W.Go("teardown-stop", func() { dir.Stop() })
	}
}
