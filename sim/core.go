package sim

import (
	"fmt"
	"sort"
	"strconv"
	"strings"
	"time"

	"github.com/hashicorp/go-hclog"
	"github.com/jimlambrt/gldap"
	"github.com/jimlambrt/gldap/simrt"
)

// S-core: a gldap.Server with a generated Mux of harness handlers, raw
// clients on simulated sockets, and control tasks (Run, Stop, Ready).

// ---- plan (drawn up front, immutable during the run) --------------------------

type RouteSpec struct {
	Kind    string // bind search extended modify add delete
	BaseDN  string
	Filter  string
	Scope   int64 // 0 unset
	ExtName string
	Label   string
	Late    int // 1, 2: registered on the live mux by task 1 or 2, after Run has started (C03)
}

type Script struct {
	Stall      int // 0 none, 1 released by the scheduler at will, 2 only in the drain phase
	Panic      bool
	InWrite    bool // with Panic: the panic is raised inside ResponseWriter.Write (a response with a nil control)
	Resps      []*RespSpec
	ReuseCtrl  bool // keep one paging control object across the responses
	StartTLS   bool // call Request.StartTLS after the first response
	StallAfter int  // StartTLS only: stall between reply and handshake (1) or after handshake (2)
}

type Req struct {
	Rec          *ReqRec
	Bytes        []byte
	Client       int
	Pos          int // ordinal of the frame on its connection, 1-based
	Script       *Script
	BehindUnbind bool
	Negative     bool // unsupported op or bind version != 3
	Corrupt      bool
	Inline       bool // gldap serves it on the connection goroutine (StartTLS, Unbind)
	Injected     bool // plaintext placed right behind a StartTLS request: must never be served (C13)

	// scheduler-side state
	sent      bool
	sentStep  int
	delivered bool
	released  bool
	entered   int
	exited    int
	enterStep int64
	exitStep  int64
	gconn     int
	route     int
	reqID     int64
	writes    []writeRes
	ctorPanic int
	got       []*RespRec
	gotStep   []int
	actual    *ReqRec
}

type writeRes struct {
	k     int
	again bool
	err   string
}

const (
	stSend = iota
	stClose
	stHalfClose
	stReset
	stPause
	stResume
	stHandshake
	stWait
)

type CStep struct {
	Kind    int
	Data    []byte
	Reqs    []*Req        // requests whose last byte is in this segment
	WaitAll bool          // only when every earlier request has been answered
	Dur     time.Duration // stWait: the client lets this much time pass
}

type Client struct {
	Idx         int
	Flavour     int // 0 plain
	Steps       []CStep
	Window      int
	Late        bool // connects only after a fault (C07 accepts-after) or after Stop
	StartPaused bool // does not read from the start (C06 write-block variant)
	Eager       bool // StartTLS flavour, C15 only: asks for StartTLS with earlier requests still outstanding
	Injecting   bool // StartTLS flavour: a plaintext request rides in the same segment right behind the StartTLS request
	// Behaviour: "" conforming; C18 misbehaviours: plaintext garbage silent abandon nocert wrongca
	Behaviour string
	Offending bool // must never reach a handler under the server's TLS configuration

	hsDone    bool
	hsErr     string
	srvTLS    string // result of Request.StartTLS as seen by the handler ("" ok)
	srvTLSOK  bool
	wasPaused bool // stopped reading at some point of the run
	srvAbort  bool // the server closed the socket abortively (RST) with data still on its way
	plainIn   int  // bytes received before the TLS handshake (StartTLS flavour)
	plainOut  int
	eof       string

	pc         int
	ep         *simrt.Conn
	dialStep   int
	dialed     bool
	refused    bool
	rx         []byte
	frames     []*RespRec
	rxErr      string
	paused     bool
	ended      string // "", close, halfclose, reset
	endStep    int
	reqs       []*Req
	disturbed  bool
	unbindSent bool
	accepted   bool
	acceptOrd  int
	gconn      int // gldap's ConnectionID as learned from handlers (0 unknown)
	srvClose   int64
	srvCloses  int
	allSent    bool
}

type CoreCfg struct {
	Prop string
	Tier string
	Lean bool // race build: oracles that read payloads are off

	LogLevel       hclog.Level
	LogJSON        bool // a real JSON-format hclog logger formats every message too
	ReadTimeout    time.Duration
	WriteTimeout   time.Duration
	NoRecovery     bool
	OnClose        int  // 0 none, 1 fast, 2 stalls until released
	TLSMode        int  // 0 plain listener, 1 server-auth TLS, 2 client certificate required and verified
	TLSViaCallback bool // the server certificate is supplied through GetCertificate
	Port           int
	Addr           string
	Malformed      bool // Addr is malformed: Run must fail
	BusyPort       bool // the port is already bound when Run starts
	SecondServer   bool // another gldap.Server is started in the same process, on another port, during the run (C09: IDs are per server)
	BusyReuse      bool // ... by a socket that has SO_REUSEPORT set (as another server process might)

	Routes     []RouteSpec
	HasDefault bool
	HasUnbind  bool

	Clients []*Client

	HoldAll    bool // every handler stalls; checkpoint at first quiescence (C06)
	HoldWrite  bool // C06 variant: handlers block in Write (non-reading clients) instead of stalling
	StopMode   int  // 0 only in teardown, 1 during the run, 2 before Run
	StopAt     int  // step after which the stop action becomes enabled
	SecondStop bool
	ReadyPoll  bool
	PassiveEnd bool // clients do nothing on their own after Stop is invoked

	FaultBudget int
	FaultKinds  map[string]bool
}

// Core is the S-core scenario.
type Core struct {
	Cfg  *CoreCfg
	w    *simrt.World
	rel  map[string]bool // released stall sites
	srv  *gldap.Server
	mux  *gldap.Mux
	reqs map[int64]*Req
	gen  *Gen

	// control state (scheduler only)
	runStarted  bool
	runRet      bool
	runErr      string
	stopCalls   int
	stopAt      map[int]time.Time // simulated time at which the n-th Stop was invoked
	stopMark    map[int][2]int    // quiescence and clock-jump counters at that moment
	quiesceN    int
	lateStart   int64 // step at which the late routes began to be registered (0: not yet)
	lateDone    int64 // step at which all of them were registered
	srv2        *gldap.Server
	lateTasks   int // how many tasks register them (1 or 2, concurrently)
	lateDoneN   int
	jumps       int
	stopRets    int
	stopErr     string
	stopStep    int
	bothStep    int
	drain       bool
	held        bool
	checkpoint  bool
	oncloseRel  map[int]bool
	onclose     map[int][]int64 // gldap conn id -> enter steps
	oncloseExit map[int]int
	recovered   []string
	acceptN     int
	byEP        map[int]*Client // transport conn id -> client
	byG         map[int]int     // gldap conn id -> transport conn id
	readyTrue   int             // step of first Ready()==true, 0 none
	faultsLeft  int
	unknownIDs  int
	lateOK      bool
	listenErrs  int
	mutants     []string
}

func (c *Core) lean() bool { return c.Cfg.Lean }

type Entered struct {
	Act   *ReqRec
	Kinds []string
}

// ---- handlers (run on gldap's goroutines) ----------------------------------------

func (c *Core) handler(route int) gldap.HandlerFunc {
	lean := c.Cfg.Lean
	return func(w *gldap.ResponseWriter, r *gldap.Request) {
		id := MsgIDOf(r)
		connID := r.ConnectionID()
		var ent *Entered
		if !lean {
			act, kinds := ActualOf(r)
			ent = &Entered{Act: act, Kinds: kinds}
		}
		simrt.Emit("h-enter", connID, id, int64(route), int64(r.ID), "", ent)
		defer simrt.Emit("h-exit", connID, id, int64(route), 0, "", nil)
		q := c.reqs[id]
		if q == nil {
			return
		}
		sc := q.Script
		if sc.Stall != 0 {
			simrt.Park("stall", "m"+strconv.FormatInt(id, 10), nil)
			if !lean {
				// what the handler was given must not change under it while
				// later requests are decoded (C01, C14)
				act, kinds := ActualOf(r)
				simrt.Emit("h-recheck", connID, id, int64(route), int64(r.ID), "", &Entered{Act: act, Kinds: kinds})
			}
		}
		if sc.Panic && sc.InWrite {
			// a response gldap cannot encode: Write itself panics
			x := r.NewSearchDoneResponse()
			x.SetControls(nil)
			_ = w.Write(x)
		}
		if sc.Panic {
			// what a handler may panic with: a string, an error, a runtime
			// error, any other value
			switch id % 5 {
			case 4:
				var e *nilErr
				panic(e) // an error value whose Error method itself panics
			case 1:
				panic(fmt.Errorf("sim: scripted handler panic (m=%d)", id))
			case 2:
				var m map[int64]int
				m[id] = 1 // assignment to entry in nil map
			case 3:
				panic(struct{ M int64 }{id})
			}
			panic(fmt.Sprintf("sim: scripted handler panic (m=%d)", id))
		}
		var reuse *ctrlReuse
		if sc.ReuseCtrl {
			reuse = &ctrlReuse{}
		}
		for k, sp := range sc.Resps {
			resp, again, pv := sp.Build(r, reuse)
			if resp == nil {
				simrt.Emit("h-ctor-panic", connID, id, int64(k), 0, fmt.Sprint(pv), nil)
				continue
			}
			err := w.Write(resp)
			es := ""
			if err != nil {
				es = err.Error()
			}
			simrt.Emit("h-write", connID, id, int64(k), 0, es, nil)
			if again != nil {
				again()
				err := w.Write(resp)
				es := ""
				if err != nil {
					es = err.Error()
				}
				simrt.Emit("h-write", connID, id, int64(k), 1, es, nil)
			}
		}
		if sc.StartTLS {
			if sc.StallAfter&1 != 0 {
				simrt.Park("stall", "t"+strconv.FormatInt(id, 10)+"a", nil)
			}
			err := r.StartTLS(serverTLS(1))
			es := ""
			if err != nil {
				es = err.Error()
			}
			simrt.Emit("h-starttls", connID, id, 0, 0, es, nil)
			if sc.StallAfter&2 != 0 {
				simrt.Park("stall", "t"+strconv.FormatInt(id, 10)+"b", nil)
			}
		}
	}
}

// nilErr is an error whose Error method dereferences its (nil) receiver.
type nilErr struct{ msg string }

func (e *nilErr) Error() string { return e.msg }

// register adds route i of the configuration to the mux.
func (c *Core) register(mux *gldap.Mux, i int) {
	rt := c.Cfg.Routes[i]
	var ro []gldap.Option
	ro = append(ro, gldap.WithLabel(rt.Label))
	var err error
	switch rt.Kind {
	case "bind":
		err = mux.Bind(c.handler(i), ro...)
	case "search":
		if rt.BaseDN != "" {
			ro = append(ro, gldap.WithBaseDN(rt.BaseDN))
		}
		if rt.Filter != "" {
			ro = append(ro, gldap.WithFilter(rt.Filter))
		}
		if rt.Scope != 0 {
			ro = append(ro, gldap.WithScope(gldap.Scope(rt.Scope)))
		}
		err = mux.Search(c.handler(i), ro...)
	case "extended":
		err = mux.ExtendedOperation(c.handler(i), gldap.ExtendedOperationName(rt.ExtName), ro...)
	case "modify":
		err = mux.Modify(c.handler(i), ro...)
	case "add":
		err = mux.Add(c.handler(i), ro...)
	case "delete":
		err = mux.Delete(c.handler(i), ro...)
	case "default":
		err = mux.DefaultRoute(c.handler(i))
	case "unbind":
		err = mux.Unbind(c.handler(i))
	}
	if err != nil {
		panic("sim: route registration: " + err.Error())
	}
}

func (c *Core) onClose(id int) {
	simrt.Emit("onclose-enter", id, 0, 0, 0, "", nil)
	if c.Cfg.OnClose == 2 {
		simrt.Park("stall", "onclose"+strconv.Itoa(id), nil)
	}
	simrt.Emit("onclose-exit", id, 0, 0, 0, "", nil)
}

// ---- setup ---------------------------------------------------------------------

func (c *Core) Setup(s *Sim) {
	cfg := c.Cfg
	c.w = s.W
	c.rel = map[string]bool{}
	c.oncloseRel = map[int]bool{}
	c.onclose = map[int][]int64{}
	c.oncloseExit = map[int]int{}
	c.byEP = map[int]*Client{}
	c.byG = map[int]int{}
	c.faultsLeft = cfg.FaultBudget
	c.held = cfg.HoldAll
	lg := newLogger(cfg.LogLevel)
	if cfg.LogJSON {
		lg = newJSONLogger(cfg.LogLevel)
	}
	opts := []gldap.Option{gldap.WithLogger(lg)}
	if cfg.ReadTimeout > 0 {
		opts = append(opts, gldap.WithReadTimeout(cfg.ReadTimeout))
	}
	if cfg.WriteTimeout > 0 {
		opts = append(opts, gldap.WithWriteTimeout(cfg.WriteTimeout))
	}
	if cfg.NoRecovery {
		opts = append(opts, gldap.WithDisablePanicRecovery())
	}
	if cfg.OnClose > 0 {
		opts = append(opts, gldap.WithOnClose(c.onClose))
	}
	srv, err := gldap.NewServer(opts...)
	if err != nil {
		panic("sim: NewServer: " + err.Error())
	}
	c.srv = srv
	mux, err := gldap.NewMux()
	if err != nil {
		panic("sim: NewMux: " + err.Error())
	}
	anyLate := false
	for i, rt := range cfg.Routes {
		if rt.Late != 0 {
			anyLate = true
			if rt.Late > c.lateTasks {
				c.lateTasks = rt.Late
			}
			continue
		}
		c.register(mux, i)
	}
	c.mux = mux
	if err := srv.Router(mux); err != nil {
		panic("sim: Router: " + err.Error())
	}
	if cfg.Prop == "C14" && !cfg.Lean {
		c.beheraCtor(s)
	}
	if cfg.BusyPort {
		hold := simrt.Listen
		if cfg.BusyReuse {
			hold = simrt.ListenReusePort
		}
		if _, err := hold("tcp", ":389"); err != nil {
			panic("sim: cannot pre-bind the port: " + err.Error())
		}
		s.Fault("F14-port-already-bound")
	}
	if cfg.StopMode == 2 {
		// Stop before Run
		c.invokeStop(s)
	}
	c.startRun(s)
	if cfg.SecondServer {
		// a second, idle server of the same process: whatever it does must
		// not touch the first one's connections
		s.W.Go("server2", func() {
			simrt.Park("task", "server2-start", nil)
			srv2, err := gldap.NewServer(gldap.WithLogger(newLogger(hclog.Off)))
			if err != nil {
				return
			}
			mux2, _ := gldap.NewMux()
			_ = mux2.DefaultRoute(func(*gldap.ResponseWriter, *gldap.Request) {})
			_ = srv2.Router(mux2)
			c.srv2 = srv2
			simrt.Emit("server2", 0, 0, 0, 0, "run", nil)
			_ = srv2.Run("127.0.0.1:390")
		})
	}
	if anyLate {
		// one or two tasks register the late routes, at the same time if two
		for t := 1; t <= c.lateTasks; t++ {
			t := t
			s.W.Go("late-routes"+strconv.Itoa(t), func() {
				simrt.Park("task", "late-routes", nil)
				simrt.Emit("late-reg", 0, 0, 0, 0, "start", nil)
				for i, rt := range cfg.Routes {
					if rt.Late == t {
						c.register(mux, i)
					}
				}
				simrt.Emit("late-reg", 0, 0, 1, 0, "done", nil)
			})
		}
	}
	if cfg.ReadyPoll {
		s.W.Go("ready", func() {
			for i := 0; i < 64; i++ {
				r := srv.Ready()
				v := int64(0)
				if r {
					v = 1
				}
				simrt.Emit("ready", 0, 0, v, 0, "", nil)
				simrt.Park("task", "ready-poll", nil)
			}
			// and once more when everything else has settled (drain phase)
			simrt.Park("task", "ready-final", nil)
			v := int64(0)
			if srv.Ready() {
				v = 1
			}
			simrt.Emit("ready", 0, 0, v, 0, "", nil)
		})
	}
}

func (c *Core) startRun(s *Sim) {
	c.runStarted = true
	srv, addr := c.srv, c.Cfg.Addr
	var ropts []gldap.Option
	if c.Cfg.TLSMode > 0 {
		m := c.Cfg.TLSMode
		if c.Cfg.TLSViaCallback {
			m += 10
		}
		ropts = append(ropts, gldap.WithTLSConfig(serverTLS(m)))
	}
	s.W.Go("run", func() {
		simrt.Emit("run-call", 0, 0, 0, 0, addr, nil)
		err := srv.Run(addr, ropts...)
		es := ""
		if err != nil {
			es = err.Error()
		}
		simrt.Emit("run-ret", 0, 0, 0, 0, es, nil)
	})
}

func (c *Core) invokeStop(s *Sim) {
	c.stopCalls++
	n := c.stopCalls
	if c.stopAt == nil {
		c.stopAt, c.stopMark = map[int]time.Time{}, map[int][2]int{}
	}
	c.stopAt[n], c.stopMark[n] = time.Now(), [2]int{c.quiesceN, c.jumps}
	if c.stopStep == 0 {
		c.stopStep = s.Steps + 1
	}
	srv := c.srv
	s.Fault("F10-stop")
	s.W.Go("stop"+strconv.Itoa(n), func() {
		simrt.Emit("stop-call", 0, 0, int64(n), 0, "", nil)
		err := srv.Stop()
		es := ""
		if err != nil {
			es = err.Error()
		}
		simrt.Emit("stop-ret", 0, 0, int64(n), 0, es, nil)
	})
}

// ---- scheduler-side actions ----------------------------------------------------

func (c *Core) Gate(p *simrt.Parked) bool {
	switch p.Kind {
	case "stall":
		return c.rel[p.Site]
	case "task":
		if p.Site == "ready-final" {
			return c.drain
		}
		if strings.HasPrefix(p.Site, "cl") && strings.HasSuffix(p.Site, "-step") {
			i, _ := strconv.Atoi(p.Site[2 : len(p.Site)-5])
			if i < len(c.Cfg.Clients) {
				return c.stepEnabled(c.Cfg.Clients[i])
			}
		}
	}
	return true
}

// stepEnabled says whether the client's next scripted step may happen now.
func (c *Core) stepEnabled(cl *Client) bool {
	if cl.pc >= len(cl.Steps) || cl.ended != "" {
		return cl.Flavour != 0 // a task past its script just runs to its end
	}
	if c.stopCalls > 0 && c.Cfg.PassiveEnd {
		return false
	}
	st := cl.Steps[cl.pc]
	if st.WaitAll {
		for _, q := range cl.reqs {
			if !c.answered(q) {
				return false
			}
		}
	}
	return true
}

func (cl *Client) name() string { return "cl" + strconv.Itoa(cl.Idx) }

func (c *Core) answered(q *Req) bool {
	if c.Cfg.Lean && c.client(q.Client).Flavour != 0 {
		return true // race build: the scheduler does not read what task clients received
	}
	if !q.Rec.Supported() || q.BehindUnbind || q.Rec.Op == "unbind" {
		return true
	}
	return len(q.got) >= wantFrames(q)-q.ctorPanic
}

// wantFrames is the number of frames the request's script writes.
func wantFrames(q *Req) int {
	want := 0
	for _, sp := range q.Script.Resps {
		want++
		if len(sp.Again) > 0 {
			want++
		}
	}
	return want
}

func (c *Core) Actions(s *Sim, acts []Action) []Action {
	cfg := c.Cfg
	stopped := c.stopCalls > 0
	for _, cl := range cfg.Clients {
		cl := cl
		if !cl.dialed {
			if cl.Late && !c.lateOK && !c.drain {
				continue
			}
			if s.W.FindListener(cfg.Port) == nil && !c.drain {
				continue // nothing to connect to yet
			}
			if stopped && cfg.PassiveEnd {
				continue
			}
			acts = append(acts, Action{Class: clsHarness, Key: "connect " + cl.name(), Weight: s.WHarness, Do: func() { c.connect(s, cl) }})
			continue
		}
		if cl.ep == nil {
			continue
		}
		if cl.paused && !(stopped && cfg.PassiveEnd) && !c.held {
			w := s.WHarness
			if !c.drain {
				w = 1
			}
			acts = append(acts, Action{Class: clsHarness, Key: "resume " + cl.name(), Weight: w, Do: func() {
				s.Logf("%s resumes reading", cl.name())
				cl.paused = false
				c.OnDelivered(s, cl.ep)
			}})
		}
		if cl.Flavour == 0 && cl.pc < len(cl.Steps) && cl.ended == "" && c.stepEnabled(cl) {
			acts = append(acts, Action{Class: clsHarness, Key: "step " + cl.name(), Weight: s.WHarness, Do: func() { c.clientStep(s, cl) }})
		}
	}
	// release stalled handlers / OnClose callbacks
	if !c.held {
		s.parkedBuf = s.W.Snapshot(s.parkedBuf)
		for _, p := range s.parkedBuf {
			if p.Kind != "stall" || c.rel[p.Site] {
				continue
			}
			site := p.Site
			if site[0] == 'm' {
				id, _ := strconv.ParseInt(site[1:], 10, 64)
				if q := c.reqs[id]; q != nil && q.Script.Stall == 2 && !c.drain {
					continue
				}
			}
			acts = append(acts, Action{Class: clsHarness, Key: "release " + site, Weight: s.WHarness, Do: func() {
				s.Logf("release %s", site)
				c.rel[site] = true
			}})
		}
	}
	// Stop
	if cfg.StopMode == 1 && c.runStarted && !c.held {
		if c.stopCalls == 0 && (s.Steps >= cfg.StopAt || c.drain) {
			acts = append(acts, Action{Class: clsHarness, Key: "stop", Weight: s.WHarness, Do: func() {
				s.Logf("invoke Stop")
				c.invokeStop(s)
			}})
		} else if c.stopCalls == 1 && cfg.SecondStop {
			acts = append(acts, Action{Class: clsHarness, Key: "stop2", Weight: s.WHarness, Do: func() {
				s.Logf("invoke second Stop")
				c.invokeStop(s)
			}})
		}
	}
	// faults
	if !c.drain && c.faultsLeft > 0 && !c.held {
		acts = c.faultActions(s, acts)
	}
	return acts
}

func (c *Core) connect(s *Sim, cl *Client) {
	cl.dialed = true
	cl.dialStep = s.Steps
	ep := s.W.Dial(c.Cfg.Port, cl.Flavour == 0)
	if ep == nil {
		cl.refused = true
		s.Logf("%s: connection refused", cl.name())
		s.W.Emit("refused", 0, 0, int64(cl.Idx), 0, "", nil)
		return
	}
	cl.ep = ep
	cl.paused = cl.StartPaused
	c.byEP[ep.ID] = cl
	if cl.Window > 0 {
		ep.Peer.SetOutWindow(cl.Window)
	}
	s.Logf("%s connects as c%d", cl.name(), ep.ID)
	s.W.Emit("connected", ep.ID, 0, int64(cl.Idx), 0, "", nil)
	if cl.Flavour != 0 {
		s.W.Go(cl.name(), func() { c.runTaskClient(cl) })
	}
}

func (c *Core) clientStep(s *Sim, cl *Client) {
	st := cl.Steps[cl.pc]
	c.noteStep(s, cl, true)
	_ = st
}

// noteStep performs (passive clients) or records (task clients) the client's
// next scripted step.
func (c *Core) noteStep(s *Sim, cl *Client, perform bool) {
	st := cl.Steps[cl.pc]
	cl.pc++
	switch st.Kind {
	case stSend:
		s.Logf("%s sends %d bytes (%d requests complete)", cl.name(), len(st.Data), len(st.Reqs))
		if len(st.Reqs) > 1 {
			s.Fault("F2-pipelined-segment")
		}
		if perform {
			cl.ep.SendRaw(st.Data)
		}
		if !cl.hsDone {
			cl.plainOut += len(st.Data)
		}
		for _, q := range st.Reqs {
			q.sent = true
			q.sentStep = s.Steps
			cl.reqs = append(cl.reqs, q)
			if q.Rec.Op == "unbind" && !q.Corrupt {
				cl.unbindSent = true
			}
			if q.Negative || q.Corrupt {
				cl.disturbed = true
			}
		}
	case stClose:
		s.Logf("%s closes", cl.name())
		s.Fault("F4-client-close")
		cl.ended, cl.endStep = "close", s.Steps
		if perform {
			cl.ep.PassiveClose()
		}
	case stHalfClose:
		s.Logf("%s half-closes", cl.name())
		s.Fault("F4-client-halfclose")
		cl.ended, cl.endStep = "halfclose", s.Steps
		if perform {
			cl.ep.CloseWrite()
		}
	case stReset:
		s.Logf("%s resets", cl.name())
		s.Fault("F4-client-reset")
		cl.ended, cl.endStep = "reset", s.Steps
		cl.disturbed = true
		if perform {
			cl.ep.Reset()
		}
	case stPause:
		s.Logf("%s stops reading", cl.name())
		s.Fault("F5-client-stops-reading")
		cl.paused, cl.wasPaused = true, true
	case stResume:
		cl.paused = false
		c.OnDelivered(s, cl.ep)
	case stWait:
		s.Logf("%s lets %v pass", cl.name(), st.Dur)
		s.Fault("F11-client-waits-mid-frame")
		c.jumps++
		s.Sleep(st.Dur)
	}
	if cl.pc == len(cl.Steps) {
		cl.allSent = true
	}
}

func (c *Core) faultActions(s *Sim, acts []Action) []Action {
	cfg := c.Cfg
	if cfg.FaultKinds["reset"] {
		for _, cl := range cfg.Clients {
			cl := cl
			if cl.ep != nil && cl.ended == "" && !cl.ep.IsReset() && len(cl.reqs) > 0 {
				acts = append(acts, Action{Class: clsFault, Key: "fault-reset " + cl.name(), Weight: s.WFault, Do: func() {
					s.Logf("FAULT reset %s", cl.name())
					s.Fault("F4-client-reset")
					c.faultsLeft--
					cl.ended, cl.endStep, cl.disturbed = "reset", s.Steps, true
					cl.ep.Reset()
					c.lateOK = true
				}})
			}
		}
	}
	if cfg.FaultKinds["accept"] {
		if l := s.W.FindListener(cfg.Port); l != nil {
			acts = append(acts, Action{Class: clsFault, Key: "fault-accept-error", Weight: s.WFault, Do: func() {
				s.Logf("FAULT accept returns EMFILE")
				s.Fault("F12-accept-error")
				c.faultsLeft--
				l.InjectAcceptErrors([]int{1, 1, 1, 3, 12}[s.Ch.Choose(5)])
				c.lateOK = true
			}})
		}
	}
	if cfg.FaultKinds["clock"] {
		acts = append(acts, Action{Class: clsFault, Key: "fault-clock-jump", Weight: s.WFault, Do: func() {
			d := []time.Duration{time.Millisecond, 50 * time.Millisecond, time.Second, time.Minute, time.Hour}[s.Ch.Choose(5)]
			s.Logf("FAULT clock jumps %v", d)
			s.Fault("F11-clock-jump")
			c.faultsLeft--
			c.jumps++
			s.Sleep(d)
		}})
	}
	if cfg.FaultKinds["pause"] {
		for _, cl := range cfg.Clients {
			cl := cl
			if cl.ep != nil && cl.ended == "" && !cl.paused && cl.Flavour == 0 {
				acts = append(acts, Action{Class: clsFault, Key: "fault-pause " + cl.name(), Weight: s.WFault, Do: func() {
					s.Logf("FAULT %s stops reading", cl.name())
					s.Fault("F5-client-stops-reading")
					c.faultsLeft--
					cl.paused, cl.wasPaused = true, true
				}})
			}
		}
	}
	return acts
}

// OnDelivered lets passive clients consume what reached them.
func (c *Core) OnDelivered(s *Sim, ep *simrt.Conn) {
	if ep.Server || !ep.Passive {
		return
	}
	cl := c.byEP[ep.ID]
	if cl == nil || cl.paused {
		return
	}
	b := ep.Consume(1 << 30)
	if len(b) == 0 {
		return
	}
	c.feed(s, cl, b)
}

// feed parses what a client received into whole LDAPMessages.
func (c *Core) feed(s *Sim, cl *Client, b []byte) {
	cl.rx = append(cl.rx, b...)
	for cl.rxErr == "" {
		n, err := FrameLen(cl.rx)
		if err != nil {
			cl.rxErr = "framing: " + err.Error()
			break
		}
		if n == 0 || len(cl.rx) < n {
			break
		}
		frame := cl.rx[:n]
		cl.rx = cl.rx[n:]
		r, err := ParseResponse(frame)
		if err != nil {
			cl.rxErr = fmt.Sprintf("frame %d of %d bytes: %v", len(cl.frames)+1, n, err)
			break
		}
		cl.frames = append(cl.frames, r)
		if q := c.reqs[r.MsgID]; q != nil && q.Client == cl.Idx {
			q.got = append(q.got, r)
			q.gotStep = append(q.gotStep, s.Steps)
		}
	}
}

// ---- events ----------------------------------------------------------------------

func (c *Core) OnEvent(s *Sim, e *simrt.Event) {
	switch e.Kind {
	case "accept":
		if cl := c.byEP[e.Conn]; cl != nil {
			cl.accepted = true
			c.acceptN++
			cl.acceptOrd = c.acceptN
		}
	case "h-enter":
		c.onEnter(s, e)
	case "h-recheck":
		c.onRecheck(s, e)
	case "h-exit":
		if q := c.reqs[e.Msg]; q != nil {
			q.exited++
			q.exitStep = e.Step
		}
	case "h-write":
		if q := c.reqs[e.Msg]; q != nil {
			q.writes = append(q.writes, writeRes{k: int(e.A), again: e.B == 1, err: e.S})
		}
	case "h-ctor-panic":
		if q := c.reqs[e.Msg]; q != nil {
			q.ctorPanic++
		}
		s.Probe("constructor-panicked-in-handler")
	case "onclose-enter":
		c.onclose[e.Conn] = append(c.onclose[e.Conn], e.Step)
	case "onclose-exit":
		c.oncloseExit[e.Conn]++
	case "sock-close":
		if e.A == 1 {
			if cl := c.byEP[e.Conn]; cl != nil {
				cl.srvCloses++
				if cl.srvClose == 0 {
					cl.srvClose = e.Step
				}
			}
		}
	case "sock-abort":
		if cl := c.byEP[e.Conn]; cl != nil && e.A == 1 {
			cl.srvAbort = true
		}
	case "c-step":
		cl := c.Cfg.Clients[e.A]
		if int(e.B) == cl.pc {
			c.noteStep(s, cl, false)
		}
	case "c-data":
		cl := c.Cfg.Clients[e.A]
		b, _ := e.P.([]byte)
		if e.B == 1 || !cl.hsDone {
			cl.plainIn += len(b)
		}
		if !c.Cfg.Lean {
			c.feed(s, cl, b)
		}
	case "c-eof":
		c.Cfg.Clients[e.A].eof = e.S
	case "c-hs":
		cl := c.Cfg.Clients[e.A]
		cl.hsDone, cl.hsErr = e.S == "", e.S
		if e.S != "" {
			cl.hsDone = false
			s.Probe("tls-client-handshake-failed")
		} else {
			s.Probe("tls-client-handshake-completed")
		}
	case "h-starttls":
		if q := c.reqs[e.Msg]; q != nil {
			cl := c.client(q.Client)
			cl.srvTLS, cl.srvTLSOK = e.S, e.S == ""
		}
	case "run-ret":
		c.runRet, c.runErr = true, e.S
		c.checkBoth(s)
	case "late-reg":
		if e.A == 0 {
			if c.lateStart == 0 {
				c.lateStart = e.Step
			}
		} else if c.lateDoneN++; c.lateDoneN == c.lateTasks {
			c.lateDone = e.Step
			s.Probe("C03-routes-registered-on-live-mux")
		}
	case "stop-ret":
		c.stopRets++
		c.onStopRet(s, int(e.A))
		if e.S != "" {
			c.stopErr = e.S
		}
		c.checkBoth(s)
	case "panic-recovered":
		if e.A == 1 {
			c.recovered = append(c.recovered, e.S)
		} else {
			s.Probe("handler-panic-recovered")
		}
	case "ready":
		if e.A == 1 && c.readyTrue == 0 {
			c.readyTrue = int(e.Step)
			if c.readyTrue == 0 {
				c.readyTrue = 1
			}
		}
		c.onReady(s, e)
	case "listen-fail":
		c.listenErrs++
	}
}

func (c *Core) Quiescent(s *Sim) bool {
	c.quiesceN++
	if c.held {
		c.held = false
		c.checkpoint = true
		c.checkConcurrent(s)
		return true
	}
	if !c.drain {
		c.drain = true
		c.lateOK = true
		s.Logf("--- faults stop; drain phase")
		return true
	}
	return false
}

func (c *Core) Teardown(s *Sim) {
	// let everything go so that goroutines can exit before the bubble ends
	c.drain = true
	for _, cl := range c.Cfg.Clients {
		cl.paused = false
		if cl.ep != nil && !cl.ep.IsReset() {
			cl.ep.Reset()
		}
	}
	if c.stopCalls == 0 || c.stopRets < c.stopCalls {
		srv := c.srv
		s.W.Go("teardown-stop", func() { _ = srv.Stop() })
	}
	if srv2 := c.srv2; srv2 != nil {
		s.W.Go("teardown-stop2", func() { _ = srv2.Stop() })
	}
}

func sortedReqs(m map[int64]*Req) []*Req {
	var out []*Req
	for _, q := range m {
		out = append(out, q)
	}
	sort.Slice(out, func(i, j int) bool {
		if out[i].Client != out[j].Client {
			return out[i].Client < out[j].Client
		}
		return out[i].Pos < out[j].Pos
	})
	return out
}

// beheraCtor checks the constructor clause of C14 on option sets drawn from
// the choice source: at most one of grace, expire and error may be set, and
// error codes above 8 are rejected.
func (c *Core) beheraCtor(s *Sim) {
	ch := s.Ch
	for i := 0; i < 6; i++ {
		var opts []gldap.Option
		var set []string
		grace, expire, code := -1, -1, -1
		if ch.Choose(2) == 1 {
			grace = int(c.gen.num31())
			opts = append(opts, gldap.WithGraceAuthNsRemaining(uint(grace)))
			set = append(set, "grace")
		}
		if ch.Choose(2) == 1 {
			expire = int(c.gen.num31())
			opts = append(opts, gldap.WithSecondsBeforeExpiration(uint(expire)))
			set = append(set, "expire")
		}
		if ch.Choose(2) == 1 {
			code = []int{0, 1, 8, 9, 10, 127, 128, 255, 256, 1000}[ch.Choose(10)]
			opts = append(opts, gldap.WithErrorCode(uint(code)))
			set = append(set, "error")
		}
		if ch.Choose(2) == 1 { // order of options must not matter
			for l, r := 0, len(opts)-1; l < r; l, r = l+1, r-1 {
				opts[l], opts[r] = opts[r], opts[l]
			}
		}
		ctl, err := gldap.NewControlBeheraPasswordPolicy(opts...)
		s.Probe("C14-behera-constructor-call")
		wantErr := len(set) > 1 || code > 8
		key := strings.Join(set, "+")
		if code > 8 {
			key += " code>8"
		}
		switch {
		case wantErr && err == nil:
			s.Violate("C14", "behera-ctor", "accepted "+key, fmt.Sprintf("NewControlBeheraPasswordPolicy(grace=%d expire=%d error=%d) returned a control: %v", grace, expire, code, ctl))
		case !wantErr && err != nil:
			s.Violate("C14", "behera-ctor", "rejected "+key, fmt.Sprintf("NewControlBeheraPasswordPolicy(grace=%d expire=%d error=%d): %v", grace, expire, code, err))
		case err == nil:
			e, _ := ctl.ErrorCode()
			if ctl.Grace() != grace || ctl.Expire() != expire || e != code {
				s.Violate("C14", "behera-ctor", "fields "+key, fmt.Sprintf("asked grace=%d expire=%d error=%d, got %d %d %d", grace, expire, code, ctl.Grace(), ctl.Expire(), e))
			}
		}
	}
}
