package sim

import (
	"fmt"
	"strings"
)

// BuildScenario draws the plan of one run for the property under check.
func BuildScenario(prop, tier string, ch *Chooser, lean bool, s *Sim) (Scenario, string) {
	switch prop {
	case "C02", "C07", "C08", "C11", "C12":
		s.LivelockProp = prop
	}
	switch prop {
	case "C19", "C20":
		d := DrawDir(prop, tier, ch, lean, s)
		return d, d.Describe()
	case "C18":
		if ch.Choose(4) == 3 {
			d := DrawDir(prop, tier, ch, lean, s)
			return d, d.Describe()
		}
		c := DrawCore(prop, tier, ch, lean, s)
		return c, c.Describe()
	case "C15":
		if ch.Choose(3) == 2 {
			d := DrawDir(prop, tier, ch, lean, s)
			return d, d.Describe()
		}
		c := DrawCore(prop, tier, ch, lean, s)
		return c, c.Describe()
	default:
		if prop == "C05" {
			s.MaxSteps = 60000
		}
		c := DrawCore(prop, tier, ch, lean, s)
		return c, c.Describe()
	}
}

// Describe summarises the drawn plan (for samples and replay files).
func (c *Core) Describe() string {
	cfg := c.Cfg
	var b strings.Builder
	fmt.Fprintf(&b, "S-core addr=%s routes=%d default=%v unbind=%v onclose=%d stop=%d/%d readTO=%v writeTO=%v faults=%d%v hold=%v;",
		cfg.Addr, len(cfg.Routes), cfg.HasDefault, cfg.HasUnbind, cfg.OnClose, cfg.StopMode, cfg.StopAt, cfg.ReadTimeout, cfg.WriteTimeout, cfg.FaultBudget, keys(cfg.FaultKinds), cfg.HoldAll)
	for _, cl := range cfg.Clients {
		n, bytes := 0, 0
		var kinds []string
		for _, st := range cl.Steps {
			n += len(st.Reqs)
			bytes += len(st.Data)
			kinds = append(kinds, []string{"send", "close", "halfclose", "reset", "pause", "resume", "handshake", "wait"}[st.Kind])
		}
		fmt.Fprintf(&b, " %s{reqs=%d bytes=%d window=%d late=%v steps=%s}", cl.name(), n, bytes, cl.Window, cl.Late, strings.Join(kinds, ","))
	}
	if len(c.mutants) > 0 {
		fmt.Fprintf(&b, " recovery-disabled=%v mutants: %s", cfg.NoRecovery, strings.Join(c.mutants, " | "))
	}
	return b.String()
}

// Nontrivial says whether the property's own trigger condition occurred in
// the run; only such runs count towards distinct_nontrivial.
func Nontrivial(prop string, s *Sim) bool {
	p := s.Probes
	c, _ := s.sc.(*Core)
	switch prop {
	case "C05":
		return p["C05-several-frames-on-one-connection"] > 0
	case "C06":
		return p["C06-pipeline-of-stalled-handlers"] > 0
	case "C08", "C09":
		return p["C08-connection-endings-judged"] > 0
	case "C10":
		return p["C10-unbind-delivered"] > 0
	case "C11":
		return c != nil && c.stopCalls > 0 && c.acceptN > 0
	case "C12":
		return c != nil && c.stopCalls > 0
	case "C17":
		return p["C17-ready-observed-true"] > 0 || (c != nil && c.runErr != "")
	case "C19":
		return p["C19-bind"] > 0
	case "C20":
		return p["C20-add"]+p["C20-delete"]+p["C20-modify"]+p["C20-search"] > 0
	case "C13":
		return p["C13-starttls-session"] > 0
	case "C18":
		for k, v := range p {
			if strings.HasPrefix(k, "C18-offending") && v > 0 {
				return true
			}
		}
		return false
	case "C02":
		return p["C02-single-point-mutants"]+p["C02-byte-damage"]+p["C02-double-point-mutants"] > 0
	case "C07":
		n := 0
		for _, v := range s.Faults {
			n += v
		}
		return n > 0
	}
	if d, ok := s.sc.(*Dir); ok {
		return d.opsDone > 0
	}
	if c != nil {
		for _, q := range c.reqs {
			if q.entered > 0 || len(q.got) > 0 {
				return true
			}
		}
	}
	return false
}
