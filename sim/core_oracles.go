package sim

import (
	"fmt"
	"sort"
	"strings"
	"time"

	"github.com/jimlambrt/gldap"
	"github.com/jimlambrt/gldap/simrt"
)

// Oracles of the S-core scenario (DESIGN.md appendix A). Each rule claims only
// what its own property states; the worker reports every violation and the
// check for property X looks at X's alone.

func (c *Core) client(i int) *Client { return c.Cfg.Clients[i] }

// cleanBefore reports that no negative or corrupt frame precedes q on its connection.
func (c *Core) cleanBefore(q *Req) bool {
	for _, p := range c.client(q.Client).reqs {
		if p == q {
			return true
		}
		if p.Negative || p.Corrupt {
			return false
		}
	}
	return true
}

func (c *Core) anyCorrupt() bool {
	for _, q := range c.reqs {
		if q.Corrupt {
			return true
		}
	}
	return false
}

// modelRoute is the reference first-match function, written from the
// statement of C03. It returns the index into Cfg.Routes, or -1 if gldap
// itself must answer.
func (c *Core) modelRoute(rec *ReqRec) int { return c.modelRouteAt(rec, true) }

// routeFor is modelRoute for a request and a moment: routes registered on
// the live mux count from the step at which their registration was complete.
// A request sent after that is matched against the whole table, one whose
// handler was entered before the registration began against the early routes
// only; for anything in between both answers are possible and ok is false
// unless they agree.
func (c *Core) routeFor(q *Req, enterStep int64) (want int, ok bool) {
	full := c.modelRouteAt(q.Rec, true)
	early := c.modelRouteAt(q.Rec, false)
	switch {
	case full == early:
		return full, true
	case c.lateDone > 0 && int64(q.sentStep) > c.lateDone:
		return full, true
	case enterStep > 0 && (c.lateStart == 0 || enterStep < c.lateStart):
		return early, true
	}
	return full, false
}

func (c *Core) modelRouteAt(rec *ReqRec, withLate bool) int {
	def := -1
	for i, rt := range c.Cfg.Routes {
		if rt.Late != 0 && !withLate {
			continue
		}
		switch rt.Kind {
		case "default":
			def = i
			continue
		case "unbind":
			continue
		}
		ok := false
		switch rt.Kind {
		case "bind":
			ok = rec.Op == "bind"
		case "search":
			ok = rec.Op == "search" &&
				(rt.BaseDN == "" || strings.EqualFold(rt.BaseDN, rec.DN)) &&
				(rt.Filter == "" || strings.EqualFold(rt.Filter, normFilter(rec.Filter))) &&
				(rt.Scope == 0 || rt.Scope == rec.Scope)
		case "extended":
			ok = rec.Op == "extended" && rt.ExtName == rec.ExtName
		case "modify", "add", "delete":
			ok = rec.Op == rt.Kind
		}
		if ok {
			return i
		}
	}
	return def
}

func offence(b string) string {
	switch b {
	case "plaintext":
		return "sent plaintext LDAP to the TLS port"
	case "garbage":
		return "sent arbitrary bytes"
	case "silent":
		return "never sent a ClientHello"
	case "abandon":
		return "abandoned the handshake"
	case "nocert":
		return "presented no client certificate"
	case "wrongca":
		return "presented a certificate from another CA"
	}
	return b
}

func (c *Core) unbindRoute() int {
	u := -1
	for i, rt := range c.Cfg.Routes {
		if rt.Kind == "unbind" {
			u = i
		}
	}
	return u
}

func (c *Core) onEnter(s *Sim, e *simrt.Event) {
	q := c.reqs[e.Msg]
	if q == nil {
		c.unknownIDs++
		if !c.anyCorrupt() {
			s.Violate("C01", "fields", "msgid unknown-to-any-client", fmt.Sprintf("a handler was given message ID %d, which no client sent", e.Msg))
			if c.Cfg.TLSMode > 0 {
				// a handler ran, and not for bytes that arrived in a TLS session:
				// no client sent this request at all
				s.Violate("C18", "gate", "handler-ran-for-a-request-nobody-sent", fmt.Sprintf("route %d (%s) was given message ID %d on connection %d; no client sent such a request", e.A, c.Cfg.Routes[e.A].Kind, e.Msg, e.Conn))
			}
		}
		return
	}
	cl := c.client(q.Client)
	// C13: a StartTLS request is handled on its own: nothing that follows it
	// on the connection is dispatched before its handler has returned
	if !q.Corrupt && !q.Injected {
		for _, prev := range cl.reqs {
			if prev.Pos >= q.Pos {
				break
			}
			// a request under any other name that the StartTLS route served
			// is a StartTLS request in the server's own eyes
			near := prev.Rec.Op == "extended" && prev.Rec.ExtName != oidStartTLS && prev.entered > 0 && prev.route >= 0 && prev.route < len(c.Cfg.Routes) &&
				c.Cfg.Routes[prev.route].Kind == "extended" && c.Cfg.Routes[prev.route].ExtName == oidStartTLS
			if prev.Rec.Op == "extended" && (prev.Rec.ExtName == oidStartTLS || near) && !prev.Corrupt && prev.entered > 0 && prev.exited == 0 {
				where := "plain"
				if near {
					where = "name-close-to-starttls-served-by-the-starttls-route"
				} else if !prev.Script.StartTLS {
					where = "inside-tunnel"
				}
				s.Violate("C13", "own", "later-request-dispatched-while-starttls-handler-runs "+where, fmt.Sprintf("%s: m=%d (%s, frame %d) entered its handler at step %d; the handler of the StartTLS request m=%d (frame %d) entered at step %d and has not returned", cl.name(), e.Msg, q.Rec.Op, q.Pos, e.Step, prev.Rec.MsgID, prev.Pos, prev.enterStep))
			}
		}
	}
	if q.Injected {
		// judged at the end: only an upgrade that succeeded makes this a violation
		// (after a failed handshake the connection is still a plain one)
		q.entered++
		q.enterStep, q.route, q.reqID = e.Step, int(e.A), e.B
		return
	}
	q.entered++
	if q.entered == 1 {
		q.enterStep, q.gconn, q.route, q.reqID = e.Step, e.Conn, int(e.A), e.B
	}
	op := q.Rec.Op
	if q.entered > 1 && !q.Corrupt {
		s.Violate("C03", "once", "handled-twice op="+op, fmt.Sprintf("m=%d entered %d handlers (routes %d then %d)", e.Msg, q.entered, q.route, e.A))
	}
	if op == "unbind" && !q.Corrupt && c.Cfg.Routes[e.A].Kind != "unbind" {
		s.Violate("C10", "unbind-once", "unbind-delivered-to-route="+c.Cfg.Routes[e.A].Kind, fmt.Sprintf("m=%d: the Unbind was handed to the %s route", e.Msg, c.Cfg.Routes[e.A].Kind))
	}
	if q.BehindUnbind {
		s.Violate("C10", "no-dispatch", "op="+op, fmt.Sprintf("m=%d at position %d on %s follows an Unbind and was dispatched to route %d", e.Msg, q.Pos, cl.name(), e.A))
	}
	if q.Negative && !q.Corrupt {
		what := "?"
		if ent, ok := e.P.(*Entered); ok && ent != nil {
			what = ent.Act.Op
		}
		k := q.Rec.Op
		if k == "bind" {
			k = "bind-version"
		}
		s.Violate("C01", "unsupported", "sent="+k+" handler-saw="+what, fmt.Sprintf("m=%d: %s (tag %d, bind version %d) reached route %d as %s", e.Msg, q.Rec.Op, q.Rec.RawOpTag, q.Rec.BindVersion, e.A, what))
	}
	if c.cleanBefore(q) && !q.Corrupt && e.B != int64(q.Pos) {
		s.Violate("C06", "numbering", "request-id-differs-from-arrival-order", fmt.Sprintf("m=%d is frame %d on %s but Request.ID=%d", e.Msg, q.Pos, cl.name(), e.B))
	}
	// C18: only a client that satisfies the TLS configuration may reach a handler
	if cl.Offending {
		s.Violate("C18", "gate", fmt.Sprintf("client=%s tls-mode=%d", cl.Behaviour, c.Cfg.TLSMode), fmt.Sprintf("m=%d (%s) from %s, which %s, was dispatched to route %d", e.Msg, op, cl.name(), offence(cl.Behaviour), e.A))
	}
	// C09
	if e.Conn <= 0 {
		s.Violate("C09", "positive", "id<=0", fmt.Sprintf("ConnectionID %d", e.Conn))
	}
	if cl.ep != nil {
		if cl.gconn == 0 {
			cl.gconn = e.Conn
			if other, dup := c.byG[e.Conn]; dup && other != cl.ep.ID {
				s.Violate("C09", "unique", "id-shared-by-two-connections", fmt.Sprintf("ConnectionID %d seen on sockets c%d and c%d", e.Conn, other, cl.ep.ID))
			}
			c.byG[e.Conn] = cl.ep.ID
		} else if cl.gconn != e.Conn {
			s.Violate("C09", "stable", "id-changed-on-one-connection", fmt.Sprintf("socket c%d reported ConnectionID %d then %d", cl.ep.ID, cl.gconn, e.Conn))
		}
	}
	// C08: no handler may start after the connection was closed or reported
	if cl.srvClose != 0 {
		s.Violate("C08", "after-handlers", "handler-entered-after-socket-close", fmt.Sprintf("m=%d entered at step %d, socket closed at %d", e.Msg, e.Step, cl.srvClose))
	}
	if len(c.onclose[e.Conn]) > 0 && c.byG[e.Conn] == cl.ep.ID {
		s.Violate("C08", "after-handlers", "handler-entered-after-onclose", fmt.Sprintf("m=%d entered at step %d, OnClose(%d) at %d", e.Msg, e.Step, e.Conn, c.onclose[e.Conn][0]))
	}
	if c.Cfg.Lean || q.Corrupt || q.Negative {
		return
	}
	ent, _ := e.P.(*Entered)
	if ent == nil {
		return
	}
	q.actual = ent.Act
	// C03 first-match
	want, decided := c.routeFor(q, e.Step)
	if op == "unbind" {
		want, decided = c.unbindRoute(), true
	}
	if decided && int(e.A) != want {
		wk, gk := "none", c.Cfg.Routes[e.A].Kind
		if want >= 0 {
			wk = c.Cfg.Routes[want].Kind
		}
		rel := "later"
		if want < 0 {
			rel = "no-route-should-match"
		} else if int(e.A) < want {
			rel = "earlier"
		}
		s.Violate("C03", "first-match", fmt.Sprintf("op=%s ran=%s want=%s (%s)", op, gk, wk, rel),
			fmt.Sprintf("m=%d %s dn=%q filter=%q scope=%d ext=%q: route %d %+v ran, first match is %d", e.Msg, op, trunc(q.Rec.DN), q.Rec.Filter, q.Rec.Scope, q.Rec.ExtName, e.A, c.Cfg.Routes[e.A], want))
	}
	// C01 / C14
	if len(ent.Kinds) != 1 {
		s.Violate("C01", "kind", fmt.Sprintf("sent=%s getters=%v", op, ent.Kinds), fmt.Sprintf("m=%d: typed getters accepting the request: %v", e.Msg, ent.Kinds))
	}
	for _, d := range Diff(q.Rec, ent.Act, gldap.ConvertString) {
		if d.Ctrl {
			s.Violate("C14", "request", d.Field, fmt.Sprintf("m=%d %s: %s", e.Msg, op, d.Detail))
			s.Violate("C01", "fields", d.Field, fmt.Sprintf("m=%d %s: %s", e.Msg, op, d.Detail))
		} else {
			rule := "fields"
			if strings.HasPrefix(d.Field, "modify-value") {
				rule = "modify-values"
			}
			s.Violate("C01", rule, d.Field, fmt.Sprintf("m=%d %s: %s", e.Msg, op, d.Detail))
		}
	}
}

// onRecheck compares what a handler reads from its request after it was
// stalled with what the client sent: the decoded message must be the
// handler's own, not state shared with requests decoded later.
func (c *Core) onRecheck(s *Sim, e *simrt.Event) {
	q := c.reqs[e.Msg]
	ent, _ := e.P.(*Entered)
	if q == nil || ent == nil || q.Corrupt || q.Negative || q.entered != 1 {
		return
	}
	s.Probe("request-re-read-after-stall")
	for _, d := range Diff(q.Rec, ent.Act, gldap.ConvertString) {
		if d.Ctrl {
			s.Violate("C14", "request", d.Field+" changed-while-handler-ran", fmt.Sprintf("m=%d %s, re-read after the handler was stalled: %s", e.Msg, q.Rec.Op, d.Detail))
		}
		s.Violate("C01", "fields", d.Field+" changed-while-handler-ran", fmt.Sprintf("m=%d %s, re-read after the handler was stalled: %s", e.Msg, q.Rec.Op, d.Detail))
	}
}

// checkConcurrent is the C06 checkpoint: first quiescence, every byte
// delivered, no handler released.
func (c *Core) checkConcurrent(s *Sim) {
	connsWithEntries, connsWithEligible := 0, 0
	for _, cl := range c.Cfg.Clients {
		if cl.ep == nil || !cl.accepted || cl.disturbed || cl.ended == "reset" {
			continue
		}
		blocked := false
		eligible, entered := 0, 0
		firstMissing := 0
		for _, q := range cl.reqs {
			if blocked || q.BehindUnbind {
				break
			}
			if q.Inline {
				blocked = true // its stalled handler legitimately holds the read loop
				continue
			}
			eligible++
			if q.entered > 0 {
				entered++
			} else if firstMissing == 0 {
				firstMissing = q.Pos
			}
		}
		if eligible > 0 {
			connsWithEligible++
		}
		if entered > 0 {
			connsWithEntries++
		}
		if eligible > 1 {
			s.Probe("C06-pipeline-of-stalled-handlers")
		}
		if entered < eligible {
			key := "later-request-waits-for-earlier-handler"
			if entered == 0 {
				key = "no-request-dispatched-on-connection"
			}
			s.Violate("C06", "concurrent", key, fmt.Sprintf("%s: %d requests delivered, every handler blocks, only %d entered (first missing: frame %d)", cl.name(), eligible, entered, firstMissing))
		}
	}
	if connsWithEligible > 1 {
		s.Probe("C06-several-connections-stalled")
	}
}

// checkBoth is evaluated at the step at which Stop and Run have both returned (C12).
func (c *Core) checkBoth(s *Sim) {
	// "once Stop and Run have both returned": every Stop call that has returned
	// counts, also a second one that returns while the first is still waiting
	if !c.runRet || c.stopRets == 0 {
		return
	}
	c.bothStep = s.Steps
	if c.stopRets > 0 {
		s.Probe("C12-stop-and-run-both-returned")
	}
	when := "stop-during-run"
	if c.Cfg.StopMode == 2 {
		when = "stop-at-start"
	}
	if c.stopRets < c.stopCalls {
		when += " another-stop-still-waiting"
	}
	// connection goroutines are the actors spawned directly by Run
	spawned := 0
	for a := range s.SeenActors {
		if strings.HasPrefix(a, "run>") && strings.Count(a, ">") == 1 {
			spawned++
		}
	}
	if s.W.FindListener(c.Cfg.Port) != nil {
		s.Violate("C12", "port-free", when, "Stop and Run have returned but the listener is still bound")
	}
	running := 0
	for _, q := range c.reqs {
		if q.entered > q.exited {
			running++
		}
	}
	if running > 0 {
		s.Violate("C12", "no-handler", when, fmt.Sprintf("%d handlers still running when Stop and Run had returned", running))
	}
	accepted, closed := 0, 0
	for _, cl := range c.Cfg.Clients {
		if cl.accepted {
			accepted++
			if cl.srvCloses > 0 {
				closed++
			}
		}
	}
	if spawned < accepted {
		when += " connection-accepted-but-not-yet-started"
	}
	if closed < accepted {
		s.Violate("C12", "closed", when, fmt.Sprintf("%d of %d accepted connections not yet closed by the server (%d connection goroutines started)", accepted-closed, accepted, spawned))
	}
	if c.Cfg.OnClose > 0 {
		exits := 0
		for _, n := range c.oncloseExit {
			exits += n
		}
		if exits < accepted {
			s.Violate("C12", "onclose-done", when, fmt.Sprintf("OnClose has completed for %d of %d accepted connections", exits, accepted))
		}
	}
	if c.stopErr != "" {
		s.Violate("C12", "idempotent", when, "Stop returned "+c.stopErr)
	}
	if c.Cfg.StopMode == 2 && c.runErr != "" {
		s.Violate("C12", "idempotent", when+" run-error", "Run returned "+c.runErr)
	}
}

// onStopRet is the "bounded time" half of C11, in simulated time. Between the
// call and the return of a Stop nothing the harness controls may have held
// it up (no quiescence was needed to release a stalled handler or callback)
// and the clock was not made to jump; what remains is time gldap itself let
// pass: the one-second grace for pending writes, and nothing else of that
// order. Ten seconds is the bound.
func (c *Core) onStopRet(s *Sim, n int) {
	at, ok := c.stopAt[n]
	if !ok || c.stopMark[n] != [2]int{c.quiesceN, c.jumps} {
		return
	}
	s.Probe("C11-stop-duration-judged")
	if d := time.Since(at); d > 10*time.Second {
		states := ""
		for _, cl := range c.Cfg.Clients {
			if cl.ep != nil && cl.accepted {
				states += " " + c.connState(cl)
			}
		}
		s.Violate("C11", "bounded", "stop-took-longer-than-10s", fmt.Sprintf("Stop call %d returned after %v of simulated time (write timeout %v, read timeout %v); connection states at its return:%s", n, d.Round(time.Millisecond), c.Cfg.WriteTimeout, c.Cfg.ReadTimeout, states))
	}
}

func (c *Core) onReady(s *Sim, e *simrt.Event) {
	if e.A != 1 {
		return
	}
	s.Probe("C17-ready-observed-true")
	if c.Cfg.Malformed {
		s.Violate("C17", "never-ready", "ready-true-for-malformed-address", fmt.Sprintf("Ready()==true although Run was given the malformed address %q", c.Cfg.Addr))
	}
	if c.Cfg.BusyPort {
		s.Violate("C17", "never-ready", fmt.Sprintf("ready-true-for-busy-port tls-mode=%d", c.Cfg.TLSMode), "Ready()==true although the port was already bound when Run started")
	}
	if c.runRet && c.runErr != "" {
		s.Violate("C17", "never-ready", "ready-true-after-run-failed", "Run returned "+c.runErr+" and Ready() reports true")
	}
	if c.stopCalls == 0 && s.W.FindListener(c.Cfg.Port) == nil {
		s.Violate("C17", "connectable", "ready-true-without-listener", "Ready()==true but no listening socket is bound to the port")
	}
}

func panicSite(stack string) (fn, where string, inSUT bool) {
	lines := strings.Split(stack, "\n")
	i := 0
	for ; i < len(lines); i++ {
		if strings.HasPrefix(lines[i], "panic(") {
			break
		}
	}
	for i += 2; i+1 < len(lines); i += 2 {
		f := lines[i]
		if strings.HasPrefix(f, "runtime.") || strings.HasPrefix(f, "panic(") {
			continue
		}
		fn = f
		if k := strings.LastIndex(fn, "("); k > 0 {
			fn = fn[:k]
		}
		where = strings.TrimSpace(lines[i+1])
		if k := strings.Index(where, " +0x"); k > 0 {
			where = where[:k]
		}
		if k := strings.LastIndex(where, "/"); k >= 0 {
			where = where[k+1:]
		}
		inSUT = !strings.Contains(f, "verifsim/") && !strings.HasPrefix(f, "sim.")
		return
	}
	return "?", "?", true
}

func (c *Core) connState(cl *Client) string {
	sv := cl.ep.Peer
	switch {
	case sv.BlockedW > 0:
		return "blocked-in-write"
	case sv.BlockedR > 0:
		if c.partial(cl) {
			return "blocked-in-read-partial-frame"
		}
		return "blocked-in-read-idle"
	}
	for _, q := range cl.reqs {
		if q.entered > q.exited {
			return "handler-running"
		}
	}
	return "not-blocked"
}

func (c *Core) partial(cl *Client) bool {
	sent := 0
	for i := 0; i < cl.pc; i++ {
		if cl.Steps[i].Kind == stSend {
			sent += len(cl.Steps[i].Data)
		}
	}
	full := 0
	for _, q := range cl.reqs {
		full += len(q.Bytes)
	}
	return sent != full
}

// Finish runs the history checks at final quiescence.
func (c *Core) Finish(s *Sim) {
	cfg := c.Cfg
	if s.StepCap {
		return // inconclusive: no verdicts from an unfinished run
	}
	// ---- C17: Run must fail on an address it cannot listen on
	if (cfg.Malformed || cfg.BusyPort) && c.runStarted && !(c.runRet && c.runErr != "") && cfg.StopMode != 2 && c.stopCalls == 0 {
		why := "malformed-address"
		if cfg.BusyPort {
			why = fmt.Sprintf("busy-port tls-mode=%d", cfg.TLSMode)
		}
		s.Violate("C17", "never-ready", "run-did-not-fail "+why, fmt.Sprintf("Run(%q) has not returned an error (returned=%v err=%q)", cfg.Addr, c.runRet, c.runErr))
	}
	// ---- C11
	if c.stopCalls > 0 {
		if c.stopRets < c.stopCalls {
			states := map[string]bool{}
			for _, cl := range cfg.Clients {
				if cl.accepted && cl.srvCloses == 0 {
					states[c.connState(cl)] = true
				}
			}
			key := "no-open-connection"
			for _, k := range []string{"not-blocked", "handler-running", "blocked-in-write", "blocked-in-read-partial-frame", "blocked-in-read-idle"} {
				if states[k] {
					key = k
					break
				}
			}
			s.Violate("C11", "stop-returns", "open-connection="+key, fmt.Sprintf("Stop invoked at step %d has not returned at final quiescence (%d of %d calls returned); connection states: %v", c.stopStep, c.stopRets, c.stopCalls, keys(states)))
		} else {
			s.Probe("C11-stop-returned")
			if !c.runRet {
				s.Violate("C11", "run-nil", "run-not-returned", "every Stop has returned but Run has not")
			} else if c.runErr != "" && cfg.StopMode != 2 {
				s.Violate("C11", "run-nil", "run-error", "Run returned "+c.runErr)
			}
		}
	}
	// ---- per connection: C08, C09, C10
	judged, unknownJudged, unknownAccepted := 0, 0, 0
	known := map[int]*Client{}
	for _, cl := range cfg.Clients {
		if cl.accepted && cl.gconn != 0 {
			known[cl.gconn] = cl
		}
	}
	for _, cl := range cfg.Clients {
		if !cl.accepted {
			continue
		}
		if cl.gconn == 0 {
			unknownAccepted++
		}
		ending := cl.ended
		if cl.unbindSent {
			ending = "unbind"
		}
		begun := cl.srvCloses > 0 || (cl.gconn != 0 && len(c.onclose[cl.gconn]) > 0)
		if ending == "" && !begun {
			continue
		}
		if ending == "" {
			ending = "server-side"
			if c.stopCalls > 0 {
				ending = "stop"
			} else if cl.disturbed {
				ending = "bad-request"
			}
		}
		judged++
		if cl.gconn == 0 {
			unknownJudged++
		}
		var lastExit int64
		inflight := "no-handler"
		running := 0
		for _, q := range cl.reqs {
			if q.exitStep > lastExit {
				lastExit = q.exitStep
			}
			if q.entered > q.exited {
				running++
			}
			if q.entered > 0 {
				inflight = "handlers"
			}
		}
		if cl.srvCloses == 0 {
			s.Violate("C08", "closed", "ending="+ending+" "+inflight, fmt.Sprintf("%s (c%d) ended by %s but the server never closed the socket; state %s", cl.name(), cl.ep.ID, ending, c.connState(cl)))
		} else if lastExit > cl.srvClose {
			s.Violate("C08", "after-handlers", "socket-closed-before-handler-exit ending="+ending, fmt.Sprintf("%s: socket closed at step %d, last handler exit at %d", cl.name(), cl.srvClose, lastExit))
		}
		if running > 0 {
			s.Violate("C08", "after-handlers", "handler-never-returned ending="+ending, fmt.Sprintf("%s: %d handlers still running at final quiescence", cl.name(), running))
		}
		if cfg.OnClose > 0 && cl.gconn != 0 {
			oc := c.onclose[cl.gconn]
			switch {
			case len(oc) == 0:
				s.Violate("C08", "onclose-once", "never-called ending="+ending, fmt.Sprintf("%s (ConnectionID %d) ended by %s: OnClose never called", cl.name(), cl.gconn, ending))
			case len(oc) > 1:
				s.Violate("C08", "onclose-once", "called-twice ending="+ending, fmt.Sprintf("%s (ConnectionID %d): OnClose called %d times", cl.name(), cl.gconn, len(oc)))
			case oc[0] < lastExit:
				s.Violate("C08", "after-handlers", "onclose-before-handler-exit ending="+ending, fmt.Sprintf("%s: OnClose at step %d, last handler exit at %d", cl.name(), oc[0], lastExit))
			}
		}
		if cl.srvCloses > 0 {
			sv := cl.ep.Peer
			if sv.BlockedR > 0 || sv.BlockedW > 0 {
				s.Violate("C08", "no-leak", "goroutine-blocked-on-closed-socket ending="+ending, fmt.Sprintf("%s: %d readers, %d writers still blocked", cl.name(), sv.BlockedR, sv.BlockedW))
			}
		}
		// C10
		if cl.unbindSent {
			var ub *Req
			for _, q := range cl.reqs {
				if q.Rec.Op == "unbind" && !q.Corrupt {
					ub = q
					break
				}
			}
			if ub != nil && c.cleanBefore(ub) && cl.ended != "reset" && cfg.ReadTimeout == 0 && cfg.WriteTimeout == 0 && c.stopCalls == 0 {
				s.Probe("C10-unbind-delivered")
				if ub.Pos < len(cl.reqs) {
					s.Probe("C10-requests-behind-unbind")
				}
				if c.unbindRoute() >= 0 && ub.entered != 1 {
					s.Violate("C10", "unbind-once", fmt.Sprintf("unbind-handler-ran-%d-times", ub.entered), fmt.Sprintf("%s: unbind route registered, handler ran %d times", cl.name(), ub.entered))
				}
				if len(ub.got) > 0 {
					s.Violate("C10", "no-response", "response-to-unbind", fmt.Sprintf("%s: %d frames carry the Unbind's message ID %d", cl.name(), len(ub.got), ub.Rec.MsgID))
				}
				if cl.srvCloses == 0 {
					s.Violate("C10", "closed-after", "not-closed", fmt.Sprintf("%s: socket still open at final quiescence after Unbind", cl.name()))
				} else {
					var last int64
					for _, q := range cl.reqs {
						if q.Pos < ub.Pos && q.exitStep > last {
							last = q.exitStep
						}
					}
					if last > cl.srvClose {
						s.Violate("C10", "closed-after", "closed-before-earlier-handler-exit", fmt.Sprintf("%s: closed at %d, earlier handler exited at %d", cl.name(), cl.srvClose, last))
					}
				}
			}
		}
	}
	if cfg.OnClose > 0 {
		// OnClose IDs that belong to no connection we can name
		other := 0
		for id, steps := range c.onclose {
			if id <= 0 {
				s.Violate("C09", "positive", "onclose-id<=0", fmt.Sprintf("OnClose(%d)", id))
			}
			if cl, ok := known[id]; ok {
				if cl.srvCloses == 0 && cl.ended == "" && !cl.unbindSent && c.stopCalls == 0 {
					s.Violate("C09", "onclose-id", "onclose-for-open-connection", fmt.Sprintf("OnClose(%d) but that connection (%s) is open and untouched", id, cl.name()))
				}
				continue
			}
			other++
			if len(steps) > 1 {
				s.Violate("C08", "onclose-once", "called-twice ending=unknown", fmt.Sprintf("OnClose(%d) called %d times", id, len(steps)))
			}
		}
		if other > unknownAccepted {
			s.Violate("C09", "onclose-id", "onclose-id-of-no-connection", fmt.Sprintf("%d OnClose IDs match no accepted connection (%d connections have no known ID)", other, unknownAccepted))
		}
		if other < unknownJudged {
			s.Violate("C08", "onclose-once", "never-called ending=no-request-seen", fmt.Sprintf("%d ended connections without any handler entry, only %d OnClose calls with other IDs", unknownJudged, other))
		}
	}
	if judged > 0 {
		s.Probe("C08-connection-endings-judged")
	}
	// goroutines spawned by a connection's goroutine that are still alive after it has returned
	live := map[string]bool{}
	for _, l := range s.W.Live(nil) {
		live[l] = true
	}
	for l := range live {
		parts := strings.Split(l, ">")
		if len(parts) < 3 || parts[0] != "run" {
			continue
		}
		if anc := parts[0] + ">" + parts[1]; !live[anc] {
			site := parts[len(parts)-1]
			if k := strings.Index(site, "#"); k > 0 {
				site = site[:k]
			}
			s.Violate("C08", "no-leak", "goroutine-outlives-its-connection spawned-at="+site, fmt.Sprintf("%s is still alive at final quiescence although the connection goroutine %s that spawned it has returned", l, anc))
		}
	}
	// goroutines left parked at final quiescence (deadlocked on a lock or never released)
	s.parkedBuf = s.W.Snapshot(s.parkedBuf)
	for _, p := range s.parkedBuf {
		if p.Kind == "lock" && strings.HasPrefix(p.Actor, "run") {
			s.Violate("C08", "no-leak", "goroutine-deadlocked-on-lock "+p.Site, fmt.Sprintf("%s is waiting for a lock at %s at final quiescence", p.Actor, p.Site))
		}
	}
	// ---- C07 (liveness of the server as a whole)
	if c.runRet && c.stopCalls == 0 {
		cause := "error"
		if c.runErr == "" {
			cause = "nil"
		} else if strings.Contains(c.runErr, "too many open files") {
			cause = "accept-error-EMFILE"
		} else if strings.Contains(c.runErr, "listen") {
			cause = "listen"
		}
		if cause != "listen" {
			s.Violate("C07", "alive", "run-returned cause="+cause, "Run returned although Stop was never called: "+c.runErr)
		}
	}
	// ---- per request / per client: C01.delivered, C03, C04, C05, C07.bystanders
	for _, cl := range cfg.Clients {
		c.finishClient(s, cl)
	}
	// ---- C02 / recovered panics
	for _, st := range c.recovered {
		fn, where := st, "?"
		if k := strings.LastIndex(st, " "); k > 0 {
			fn, where = st[:k], st[k+1:]
		}
		s.Violate("C02", "recovered-panic", where, fmt.Sprintf("the recover swallowed a panic raised in gldap's own code: %s (%s)", fn, where))
		if c.Cfg.Prop == "C07" {
			s.Probe("C07-panic-in-gldap-recovered")
		}
	}
}

func firstWords(s string) string {
	f := strings.Fields(s)
	if len(f) > 6 {
		f = f[:6]
	}
	return strings.Join(f, " ")
}

func keys(m map[string]bool) []string {
	var k []string
	for x := range m {
		k = append(k, x)
	}
	sort.Strings(k)
	return k
}

// bystanderViolation blames a wrongly served bystander on the property whose
// faults the run injects.
func (c *Core) bystanderViolation(s *Sim, key, detail string) {
	s.Violate("C07", "bystanders", key, detail)
	if c.Cfg.Prop == "C02" {
		s.Violate("C02", "isolated", key, detail)
	}
	if c.Cfg.TLSMode > 0 {
		s.Violate("C18", "isolated", key, detail)
	}
}

func (c *Core) finishClient(s *Sim, cl *Client) {
	cfg := c.Cfg
	if cl.Late && cl.dialed && c.stopCalls == 0 && !c.runRet {
		if cl.refused || !cl.accepted {
			s.Violate("C07", "accepts-after", "new-connection-not-accepted", fmt.Sprintf("%s connected after the fault and was never accepted (refused=%v)", cl.name(), cl.refused))
		} else {
			s.Probe("C07-connection-after-fault-accepted")
		}
	}
	// a conforming client that connected while the server was up must be
	// accepted and served, whatever other clients are doing
	if cl.dialed && !cl.Offending && !cl.disturbed && c.stopCalls == 0 && !c.runRet && cl.ended == "" && cfg.ReadTimeout == 0 && cfg.WriteTimeout == 0 {
		stuck := ""
		switch {
		case cl.refused && c.readyTrue > 0 && int(c.readyTrue) <= cl.dialStep:
			s.Violate("C17", "connectable", "connection-refused-after-ready", fmt.Sprintf("%s was refused at step %d although Ready() had been true since step %d", cl.name(), cl.dialStep, c.readyTrue))
		case cl.refused:
		case !cl.accepted:
			stuck = "connection-never-accepted"
		case cl.Flavour == 1 && !cl.hsDone && cl.hsErr == "":
			stuck = "tls-handshake-never-completed"
		}
		if stuck != "" {
			c.bystanderViolation(s, stuck, fmt.Sprintf("%s connected at step %d and at final quiescence: %s", cl.name(), cl.dialStep, stuck))
			if cfg.ReadyPoll && c.readyTrue > 0 {
				s.Violate("C17", "served", stuck, fmt.Sprintf("%s connected after Ready()==true and before Stop: %s", cl.name(), stuck))
			}
		}
	}
	if cl.ep == nil || !cl.accepted {
		return
	}
	if cl.Offending {
		s.Probe("C18-offending-client-" + cl.Behaviour)
		if c.runRet && c.stopCalls == 0 {
			s.Violate("C18", "isolated", "run-returned", "Run returned after "+cl.name()+" "+offence(cl.Behaviour))
		}
		// such an attempt ends its own connection: once the handshake has
		// failed on the server's side the server closes the socket
		switch cl.Behaviour {
		case "plaintext", "nocert", "wrongca": // (arbitrary bytes may be the beginning of a record the server still waits for)
			if cl.srvClose == 0 && c.stopCalls == 0 && !cl.ep.IsReset() && cl.ep.Peer.InFlightIn() == 0 && cfg.ReadTimeout == 0 && cfg.WriteTimeout == 0 && (cl.Flavour == 0 && cl.allSent || cl.hsErr != "") {
				s.Violate("C18", "isolated", "offender-connection-never-closed client="+cl.Behaviour, fmt.Sprintf("%s %s; at final quiescence the server has not closed its socket (state %s)", cl.name(), offence(cl.Behaviour), c.connState(cl)))
			}
		}
	}
	if cl.Flavour == 1 && !cl.Offending && !cl.disturbed && cl.dialed && c.stopCalls == 0 && cl.ended != "reset" && cl.hsErr != "" && cfg.ReadTimeout == 0 && cfg.WriteTimeout == 0 {
		s.Violate("C18", "isolated", "conforming-client-rejected tls-mode="+fmt.Sprint(cfg.TLSMode)+" client="+cl.Behaviour, fmt.Sprintf("%s satisfies the configuration but its handshake failed: %s", cl.name(), cl.hsErr))
	}
	if cl.Flavour == 2 {
		c.finishStartTLS(s, cl)
	}
	if cl.Injecting {
		s.Probe("C13-plaintext-injected-behind-starttls")
		for _, q := range c.reqs {
			if q.Injected && q.Client == cl.Idx && q.entered > 0 && cl.srvTLSOK {
				s.Violate("C13", "injection", "plaintext-behind-starttls-was-served", fmt.Sprintf("m=%d (%s) was sent in the clear in the same segment as the StartTLS request of %s; the upgrade succeeded and the request was served (route %d, Request.ID %d)", q.Rec.MsgID, q.Rec.Op, cl.name(), q.route, q.reqID))
			}
		}
	}
	if cl.Flavour != 0 && (c.stopCalls > 0 || cfg.Lean || cfg.ReadTimeout != 0 || cfg.WriteTimeout != 0) {
		return // a task client's byte stream is only judged on undisturbed runs
	}
	// (a reset that the server itself caused by an abortive close is not a
	// disturbance of the client's making: what it loses, gldap lost)
	intact := (!cl.ep.IsReset() || cl.srvAbort) && cl.ended != "reset" && cl.ended != "close"
	// with a write timeout configured a Write may fail half-way through a
	// frame and leave its beginning on the wire; a Write that returned nil
	// has still handed its whole frame to the socket
	drained := intact && !cl.paused && cl.ep.InFlightIn() == 0 && cl.ep.ReadyIn() == 0 && cfg.ReadTimeout == 0
	if cl.rxErr != "" && !cl.ep.IsReset() {
		rule, prop := "stream", "C05"
		if !strings.HasPrefix(cl.rxErr, "framing") {
			prop, rule = "C04", "frame"
		}
		s.Violate(prop, rule, "malformed-frame", fmt.Sprintf("%s: %s", cl.name(), cl.rxErr))
		if !cl.disturbed {
			c.bystanderViolation(s, "malformed-frame", fmt.Sprintf("%s: %s", cl.name(), cl.rxErr))
		}
		return
	}
	// Once Stop is invoked pending writes get a deadline, and one that expires
	// half-way through a frame ends the stream with a torn frame (and a write
	// error: not a successful Write). That needs simulated time to pass: an
	// injected clock jump, or a client that was not reading so that a writer
	// sat blocked until the deadline.
	cutShort := false
	if c.stopCalls > 0 {
		cutShort = c.jumps > 0 || cl.wasPaused
		for _, q := range cl.reqs {
			for _, wr := range q.writes {
				if strings.Contains(wr.err, "timeout") {
					cutShort = true
				}
			}
		}
	}
	if drained && cfg.WriteTimeout == 0 && !cutShort && len(cl.rx) > 0 {
		s.Violate("C05", "stream", "trailing-partial-frame", fmt.Sprintf("%s: %d bytes left that are not a whole LDAPMessage", cl.name(), len(cl.rx)))
	}
	bystander := !cl.disturbed && cl.ended == "" && c.stopCalls == 0
	contended := false
	undelivered := false
	for _, q := range cl.reqs {
		if q.Corrupt || !q.Rec.Supported() || q.BehindUnbind || !c.cleanBefore(q) {
			continue
		}
		op := q.Rec.Op
		// delivery (C01.delivered / C03.once): the request must have reached a handler
		servable := c.stopCalls == 0 && cl.ended != "reset" && !cl.ep.IsReset() && cl.ep.Peer.InFlightIn() == 0 && cfg.ReadTimeout == 0 && cfg.WriteTimeout == 0 && !cl.Offending && (cl.Flavour == 0 || cl.hsDone || cl.Flavour == 2)
		want, decided := c.routeFor(q, q.enterStep)
		if op == "unbind" {
			want, decided = c.unbindRoute(), true
		}
		if !decided {
			continue // matched while routes were being registered: either table
		}
		if servable && q.entered == 0 && want >= 0 {
			if undelivered {
				continue // a consequence of the first one: the connection is gone
			}
			undelivered = true
			s.Logf("undelivered: %+v", *q.Rec)
			s.Violate("C03", "once", "dropped op="+op, fmt.Sprintf("m=%d (%s, frame %d on %s) was never handed to a handler", q.Rec.MsgID, op, q.Pos, cl.name()))
			s.Violate("C01", "delivered", "op="+op, fmt.Sprintf("m=%d (%s, frame %d on %s) never reached a handler", q.Rec.MsgID, op, q.Pos, cl.name()))
			if len(q.Rec.Controls) > 0 {
				kinds := " first=" + ctrlClass(q.Rec.Controls[0])
				s.Violate("C14", "request", "request-with-controls-never-delivered"+kinds, fmt.Sprintf("m=%d (%s, frame %d on %s) carries %d well-formed controls and never reached a handler", q.Rec.MsgID, op, q.Pos, cl.name(), len(q.Rec.Controls)))
			}
			if bystander {
				c.bystanderViolation(s, "request-dropped", fmt.Sprintf("m=%d on bystander %s never served", q.Rec.MsgID, cl.name()))
			}
			if cfg.ReadyPoll && c.readyTrue > 0 {
				s.Violate("C17", "served", "request-never-served", fmt.Sprintf("m=%d on %s, which connected after Ready()==true, was never served", q.Rec.MsgID, cl.name()))
			}
			continue
		}
		if op == "unbind" {
			continue
		}
		if want < 0 {
			// gldap itself must refuse (C03.refusal)
			if q.entered > 0 {
				continue // already reported by first-match
			}
			if servable && drained {
				wantTag := map[string]int{"bind": 1, "search": 5, "modify": 7, "add": 9, "delete": 11, "extended": 24}[op]
				switch {
				case len(q.got) == 0:
					s.Violate("C03", "refusal", "no-answer op="+op, fmt.Sprintf("m=%d: no route matches, no default route, and gldap sent nothing", q.Rec.MsgID))
				case len(q.got) > 1:
					s.Violate("C03", "refusal", "several-answers op="+op, fmt.Sprintf("m=%d: %d frames", q.Rec.MsgID, len(q.got)))
				case q.got[0].Code != 53:
					s.Violate("C03", "refusal", fmt.Sprintf("result-code=%d op=%s", q.got[0].Code, op), fmt.Sprintf("m=%d: result code %d, want unwillingToPerform (53)", q.Rec.MsgID, q.got[0].Code))
				case q.got[0].Tag != wantTag:
					s.Violate("C03", "refusal", fmt.Sprintf("refusal-tag op=%s got=%d want=%d", op, q.got[0].Tag, wantTag), fmt.Sprintf("m=%d: the built-in refusal has protocolOp tag %d; a %s client waits for tag %d", q.Rec.MsgID, q.got[0].Tag, op, wantTag))
				default:
					s.Probe("C03-refusal-seen")
				}
			}
			continue
		}
		if q.entered == 0 {
			continue
		}
		// responses
		nOK := 0
		var exp []*Expect
		var okw []bool
		for _, w := range q.writes {
			if w.again {
				exp = append(exp, q.Script.Resps[w.k].ModelAgain(q.Rec.MsgID))
			} else {
				exp = append(exp, q.Script.Resps[w.k].Model(q.Rec.MsgID))
			}
			okw = append(okw, w.err == "")
			if w.err == "" {
				nOK++
			}
		}
		if len(q.writes) > 1 {
			contended = true
		}
		gi := 0
		for wi := range exp {
			if gi < len(q.got) {
				f, det := exp[wi].Match(q.got[gi])
				if f == "" {
					// second, independent decoder of the controls: go-ldap (C14)
					if exp[wi].HasCtrls && len(exp[wi].Controls) > 0 && !cfg.Lean {
						if recs, ok, why := GoLdapControls(q.got[gi].Bytes); !ok {
							s.Probe("C14-go-ldap-could-not-decode: " + firstWords(why))
						} else if len(recs) != len(exp[wi].Controls) {
							s.Violate("C14", "response", "go-ldap control-count", fmt.Sprintf("m=%d: go-ldap decodes %d controls, %d were set", q.Rec.MsgID, len(recs), len(exp[wi].Controls)))
						} else {
							s.Probe("C14-response-controls-decoded-by-go-ldap")
							for i := range recs {
								if d := CtrlDiff(exp[wi].Controls[i], recs[i]); d != "" {
									s.Violate("C14", "response", "go-ldap control "+ctrlClass(exp[wi].Controls[i]), fmt.Sprintf("m=%d: as decoded by go-ldap: [%d] %s", q.Rec.MsgID, i, d))
								}
							}
						}
					}
					gi++
					continue
				}
				if okw[wi] {
					// a successful write whose frame arrived different
					if len(q.got) == nOK {
						ctor := q.Script.Resps[q.writes[wi].k].Ctor
						s.Violate("C04", "frame", f+" ctor="+ctor, fmt.Sprintf("m=%d response %d (%s): %s", q.Rec.MsgID, wi, ctor, det))
						if strings.HasPrefix(f, "control") {
							s.Violate("C14", "response", f, fmt.Sprintf("m=%d response %d (%s): %s", q.Rec.MsgID, wi, ctor, det))
						}
						if bystander {
							c.bystanderViolation(s, "wrong-response", fmt.Sprintf("m=%d on bystander %s: %s", q.Rec.MsgID, cl.name(), det))
						}
						gi++
						continue
					}
					if drained {
						s.Violate("C05", "multiset", "frame-lost-or-reordered", fmt.Sprintf("m=%d: write %d returned nil but the next frame received differs (%s)", q.Rec.MsgID, wi, det))
					}
				}
				continue
			}
			if okw[wi] && drained && q.exited >= q.entered {
				s.Violate("C05", "multiset", "frame-lost", fmt.Sprintf("m=%d: write %d of %d returned nil, client received %d frames for it", q.Rec.MsgID, wi, len(q.writes), len(q.got)))
				s.Violate("C04", "frame", "never-arrived ctor="+q.Script.Resps[q.writes[wi].k].Ctor, fmt.Sprintf("m=%d: write %d of %d returned nil but its frame never reached the client (%d frames received)", q.Rec.MsgID, wi, len(q.writes), len(q.got)))
				if bystander {
					c.bystanderViolation(s, "response-lost", fmt.Sprintf("m=%d on bystander %s", q.Rec.MsgID, cl.name()))
				}
				break
			}
		}
		if gi < len(q.got) {
			s.Violate("C05", "multiset", "frame-duplicated-or-unknown", fmt.Sprintf("m=%d: %d writes attempted, %d frames received", q.Rec.MsgID, len(q.writes), len(q.got)))
		}
		if bystander && drained && q.exited >= q.entered && len(q.writes)+2*q.ctorPanic < len(q.Script.Resps) && !q.Script.Panic {
			c.bystanderViolation(s, "handler-did-not-finish", fmt.Sprintf("m=%d on bystander %s", q.Rec.MsgID, cl.name()))
		}
	}
	// frames that belong to no request of this client
	for _, f := range cl.frames {
		q := c.reqs[f.MsgID]
		if q != nil && q.Client == cl.Idx {
			continue
		}
		if f.MsgID == 0 && f.Tag == 24 && c.stopCalls > 0 {
			continue // notice of disconnection
		}
		if c.anyCorrupt() {
			continue
		}
		s.Violate("C04", "frame", "msgid-of-no-request", fmt.Sprintf("%s received a frame with message ID %d (tag %d), which it never used", cl.name(), f.MsgID, f.Tag))
		if q != nil {
			s.Violate("C05", "multiset", "frame-on-wrong-connection", fmt.Sprintf("%s received the answer to m=%d of %s", cl.name(), f.MsgID, c.client(q.Client).name()))
		}
	}
	if contended || len(cl.reqs) > 1 {
		s.Probe("C05-several-frames-on-one-connection")
	}
	_ = cfg
}

// finishStartTLS: C13 for one upgraded connection.
func (c *Core) finishStartTLS(s *Sim, cl *Client) {
	var st *Req
	for _, q := range cl.reqs {
		if q.Script.StartTLS {
			st = q
		}
	}
	if st == nil || cl.ended == "reset" || cl.ep.IsReset() || cl.disturbed || c.Cfg.ReadTimeout != 0 || c.Cfg.WriteTimeout != 0 {
		return
	}
	s.Probe("C13-starttls-session")
	timing := fmt.Sprintf("handler-stall=%d", st.Script.StallAfter)
	if st.entered == 0 {
		return // C03/C01 report an undelivered request
	}
	if (!cl.srvTLSOK || !cl.hsDone) && c.stopCalls > 0 {
		return // the upgrade was cut short by Stop
	}
	if !cl.srvTLSOK || !cl.hsDone {
		s.Violate("C13", "session", "handshake-failed "+timing, fmt.Sprintf("%s: conforming StartTLS client; server side: %q, client side: %q", cl.name(), cl.srvTLS, cl.hsErr))
		return
	}
	if cl.ended == "" && !c.Cfg.Lean && c.stopCalls == 0 {
		for _, q := range cl.reqs {
			if q.Pos > st.Pos && !q.BehindUnbind && q.Rec.Supported() && q.Rec.Op != "unbind" && c.cleanBefore(q) && !c.answered(q) {
				s.Violate("C13", "tunnel", "request-in-tunnel-unanswered "+timing, fmt.Sprintf("%s: m=%d (%s) sent inside the tunnel, %d of %d responses received", cl.name(), q.Rec.MsgID, q.Rec.Op, len(q.got), len(q.Script.Resps)))
				break
			}
		}
	}
	// C13.wire: after the plain phase every byte in both directions is a TLS record
	up := tapBytes(cl.ep)
	down := tapBytes(cl.ep.Peer)
	if cl.plainOut <= len(up) {
		if ok, at, why := tlsRecordsOnly(up[cl.plainOut:]); !ok {
			s.Violate("C13", "wire", "client-to-server-not-tls", fmt.Sprintf("%s: byte %d after the upgrade: %s", cl.name(), at, why))
		}
	}
	if cl.plainIn <= len(down) {
		if ok, at, why := tlsRecordsOnly(down[cl.plainIn:]); !ok {
			s.Violate("C13", "wire", "server-to-client-not-tls", fmt.Sprintf("%s: byte %d after the StartTLS response: %s (plaintext sent after the upgrade)", cl.name(), at, why))
		} else {
			s.Probe("C13-wire-checked")
		}
	}
}
