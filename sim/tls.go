package sim

import (
	"crypto/ed25519"
	"crypto/tls"
	"crypto/x509"
	"crypto/x509/pkix"
	"math/big"
	mrand "math/rand/v2"
	"net"
	"strconv"
	"time"

	"github.com/jimlambrt/gldap/simrt"
)

// The harness's own PKI: Ed25519 CA, server leaf, client leaf, and a second
// ("foreign") CA with its own client leaf. Generated once per process from a
// fixed stream, valid 1990-2100 (the bubble's clock starts in 2000).

type pki struct {
	pool, foreignPool          *x509.CertPool
	server, client, foreignCli tls.Certificate
}

var thePKI *pki

func getPKI() *pki {
	if thePKI != nil {
		return thePKI
	}
	var seed [32]byte
	copy(seed[:], "gldap-verif-fixed-pki-seed-00001")
	rng := mrand.NewChaCha8(seed)
	serial := int64(1000)
	mk := func(cn string, ca *x509.Certificate, caKey ed25519.PrivateKey, isCA bool, usage x509.ExtKeyUsage) (tls.Certificate, *x509.Certificate, ed25519.PrivateKey) {
		pub, priv, err := ed25519.GenerateKey(rng)
		if err != nil {
			panic(err)
		}
		serial++
		tpl := &x509.Certificate{
			SerialNumber: big.NewInt(serial),
			Subject:      pkix.Name{CommonName: cn},
			NotBefore:    time.Date(1990, 1, 1, 0, 0, 0, 0, time.UTC),
			NotAfter:     time.Date(2100, 1, 1, 0, 0, 0, 0, time.UTC),
			KeyUsage:     x509.KeyUsageDigitalSignature,
			IsCA:         isCA, BasicConstraintsValid: true,
		}
		if isCA {
			tpl.KeyUsage |= x509.KeyUsageCertSign
		} else {
			tpl.ExtKeyUsage = []x509.ExtKeyUsage{usage}
			tpl.DNSNames = []string{"localhost"}
			tpl.IPAddresses = []net.IP{net.IPv4(127, 0, 0, 1), net.IPv6loopback}
		}
		parent, signer := tpl, priv
		if ca != nil {
			parent, signer = ca, caKey
		}
		der, err := x509.CreateCertificate(rng, tpl, parent, pub, signer)
		if err != nil {
			panic(err)
		}
		cert, _ := x509.ParseCertificate(der)
		return tls.Certificate{Certificate: [][]byte{der}, PrivateKey: priv, Leaf: cert}, cert, priv
	}
	p := &pki{pool: x509.NewCertPool(), foreignPool: x509.NewCertPool()}
	_, ca, caKey := mk("sim CA", nil, nil, true, 0)
	_, fca, fcaKey := mk("foreign CA", nil, nil, true, 0)
	p.pool.AddCert(ca)
	p.foreignPool.AddCert(fca)
	p.server, _, _ = mk("server", ca, caKey, false, x509.ExtKeyUsageServerAuth)
	p.client, _, _ = mk("client", ca, caKey, false, x509.ExtKeyUsageClientAuth)
	p.foreignCli, _, _ = mk("foreign client", fca, fcaKey, false, x509.ExtKeyUsageClientAuth)
	thePKI = p
	return p
}

// serverTLS returns the server-side configuration: mode 1 server
// authentication only, mode 2 client certificate required and verified.
func serverTLS(mode int) *tls.Config {
	p := getPKI()
	c := &tls.Config{Certificates: []tls.Certificate{p.server}}
	if mode >= 10 {
		// the certificate comes from a callback, as with rotating certificates
		mode -= 10
		srv := p.server
		c = &tls.Config{GetCertificate: func(*tls.ClientHelloInfo) (*tls.Certificate, error) { return &srv, nil }}
	}
	if mode == 2 {
		c.ClientAuth = tls.RequireAndVerifyClientCert
		c.ClientCAs = p.pool
	}
	return c
}

func clientTLS(behaviour string) *tls.Config {
	p := getPKI()
	c := &tls.Config{RootCAs: p.pool, ServerName: "localhost"}
	switch behaviour {
	case "nocert":
	case "wrongca":
		c.Certificates = []tls.Certificate{p.foreignCli}
	default:
		c.Certificates = []tls.Certificate{p.client}
	}
	return c
}

// ---- task clients: TLS and StartTLS connections run on their own goroutines ----

// runTaskClient is the body of a non-passive client. It walks the client's
// script; before each step it parks and the scheduler decides when it goes on.
// Everything it learns is reported through events.
func (c *Core) runTaskClient(cl *Client) {
	idx := int64(cl.Idx)
	ep := cl.ep
	var conn net.Conn = ep
	reader := func(r net.Conn) {
		c.w.Go(cl.name()+"-rd", func() {
			buf := make([]byte, 32768)
			for {
				n, err := r.Read(buf)
				if n > 0 {
					simrt.Emit("c-data", ep.ID, 0, idx, 0, "", append([]byte(nil), buf[:n]...))
				}
				if err != nil {
					simrt.Emit("c-eof", ep.ID, 0, idx, 0, err.Error(), nil)
					return
				}
			}
		})
	}
	handshake := func() bool {
		tc := tls.Client(ep, clientTLS(cl.Behaviour))
		err := tc.Handshake()
		es := ""
		if err != nil {
			es = err.Error()
		}
		simrt.Emit("c-hs", ep.ID, 0, idx, 0, es, nil)
		if err != nil {
			return false
		}
		conn = tc
		return true
	}
	if cl.Flavour == 1 {
		if !handshake() {
			ep.Close()
			return
		}
		reader(conn)
	}
	plain := cl.Flavour == 2
	for i := range cl.Steps {
		st := &cl.Steps[i]
		simrt.Park("task", cl.name()+"-step", nil)
		switch st.Kind {
		case stSend:
			_, err := conn.Write(st.Data)
			es := ""
			if err != nil {
				es = err.Error()
			}
			simrt.Emit("c-step", ep.ID, 0, idx, int64(i), es, nil)
			if plain {
				// sequential in the plain phase: read until the answers to
				// this segment have arrived (the scheduler gates the next step)
				for _, q := range st.Reqs {
					if q.Rec.Op == "extended" && q.Rec.ExtName == oidStartTLS && !q.Corrupt {
						if cl.Eager {
							if !c.readUntil(cl, ep, q.Rec.MsgID) {
								return
							}
						} else if !c.readFrames(cl, ep, 1) {
							return
						}
						simrt.Park("task", cl.name()+"-hello", nil)
						if !handshake() {
							ep.Close()
							return
						}
						plain = false
						reader(conn)
					} else if q.Rec.Supported() && q.Rec.Op != "unbind" && !cl.Eager {
						if !c.readFrames(cl, ep, wantFrames(q)) {
							return
						}
					}
				}
			}
		case stClose:
			conn.Close()
			if conn != net.Conn(ep) {
				ep.Close()
			}
			simrt.Emit("c-step", ep.ID, 0, idx, int64(i), "", nil)
			return
		case stReset:
			simrt.Emit("c-step", ep.ID, 0, idx, int64(i), "", nil)
			ep.Reset()
			return
		default:
			simrt.Emit("c-step", ep.ID, 0, idx, int64(i), "", nil)
		}
	}
}

// readUntil reads whole LDAPMessages from a plain connection until one with
// the given message ID has arrived (an eager client: earlier requests may
// still be outstanding when it asks for StartTLS; C15 workload only).
func (c *Core) readUntil(cl *Client, ep *simrt.Conn, msgID int64) bool {
	var acc []byte
	buf := make([]byte, 4096)
	for {
		k, err := ep.Read(buf)
		if k > 0 {
			simrt.Emit("c-data", ep.ID, 0, int64(cl.Idx), 1, "", append([]byte(nil), buf[:k]...))
			acc = append(acc, buf[:k]...)
			for {
				l, ferr := FrameLen(acc)
				if ferr != nil {
					return false
				}
				if l == 0 || len(acc) < l {
					break
				}
				r, perr := ParseResponse(acc[:l])
				acc = acc[l:]
				if perr == nil && r.MsgID == msgID {
					return true
				}
			}
		}
		if err != nil {
			simrt.Emit("c-eof", ep.ID, 0, int64(cl.Idx), 0, err.Error(), nil)
			return false
		}
	}
}

// readFrames reads n whole LDAPMessages from a plain connection.
func (c *Core) readFrames(cl *Client, ep *simrt.Conn, n int) bool {
	var acc []byte
	buf := make([]byte, 4096)
	got := 0
	for got < n {
		k, err := ep.Read(buf)
		if k > 0 {
			simrt.Emit("c-data", ep.ID, 0, int64(cl.Idx), 1, "", append([]byte(nil), buf[:k]...))
			acc = append(acc, buf[:k]...)
			for {
				l, ferr := FrameLen(acc)
				if ferr != nil {
					return false
				}
				if l == 0 || len(acc) < l {
					break
				}
				acc = acc[l:]
				got++
			}
		}
		if err != nil {
			simrt.Emit("c-eof", ep.ID, 0, int64(cl.Idx), 0, err.Error(), nil)
			return false
		}
	}
	return true
}

// tlsRecordsOnly checks that b is a sequence of well-formed TLS records
// (possibly ending in a partial one if final is false).
func tlsRecordsOnly(b []byte) (ok bool, at int, why string) {
	i := 0
	for i < len(b) {
		if len(b)-i < 5 {
			return true, i, "" // partial header at the very end
		}
		typ, maj, l := b[i], b[i+1], int(b[i+3])<<8|int(b[i+4])
		if typ < 20 || typ > 23 {
			return false, i, "content type " + strconv.Itoa(int(typ))
		}
		if maj != 3 {
			return false, i, "record version " + strconv.Itoa(int(maj))
		}
		if l > 16384+2048 {
			return false, i, "record length " + strconv.Itoa(l)
		}
		i += 5 + l
	}
	return true, i, ""
}

func tapBytes(ep *simrt.Conn) []byte {
	var b []byte
	for _, t := range ep.TapOut() {
		b = append(b, t.Data...)
	}
	return b
}
