package sim

import (
	"bytes"
	"fmt"
	"sort"
	"strconv"
	"strings"

	ber "github.com/go-asn1-ber/asn1-ber"
	ldap "github.com/go-ldap/ldap/v3"
	"github.com/jimlambrt/gldap"
)

// Records of what a client encoded (expected) and what a handler was given
// (actual). They are plain data; comparison is field by field.

type AttrRec struct {
	Type string
	Vals []string
}

type ChangeRec struct {
	Op   int64
	Type string
	Vals []string
}

// CtrlRec is one control. Kind selects which fields are meaningful.
type CtrlRec struct {
	Kind     string // paging behera vchumust vchuwarn manage msnotif msshowdel msttl string
	OID      string
	Crit     bool
	ExplCrit bool // encode criticality FALSE explicitly (valid BER)
	PageSize uint32
	Cookie   []byte
	Expire   int64 // behera timeBeforeExpiration (-1 unset) / vchu warning
	Grace    int64 // -1 unset
	ErrCode  int64 // -1 unset
	Value    string
	HasValue bool
	// GldapEnc: put the control on the wire as gldap's own Encode() produces it
	// (C14: what gldap encodes, gldap's request decoder must recover)
	GldapEnc bool
}

func (c CtrlRec) String() string {
	switch c.Kind {
	case "paging":
		return fmt.Sprintf("paging(size=%d cookie=%x)", c.PageSize, c.Cookie)
	case "behera":
		return fmt.Sprintf("behera(expire=%d grace=%d err=%d)", c.Expire, c.Grace, c.ErrCode)
	case "vchuwarn":
		return fmt.Sprintf("vchuwarn(%d)", c.Expire)
	case "manage":
		return fmt.Sprintf("manage(crit=%v)", c.Crit)
	case "string":
		return fmt.Sprintf("string(%q crit=%v val=%q)", c.OID, c.Crit, c.Value)
	}
	return c.Kind
}

const (
	oidPaging    = "1.2.840.113556.1.4.319"
	oidBehera    = "1.3.6.1.4.1.42.2.27.8.5.1"
	oidVChuMust  = "2.16.840.1.113730.3.4.4"
	oidVChuWarn  = "2.16.840.1.113730.3.4.5"
	oidManage    = "2.16.840.1.113730.3.4.2"
	oidMSNotif   = "1.2.840.113556.1.4.528"
	oidMSShowDel = "1.2.840.113556.1.4.417"
	oidMSTTL     = "1.2.840.113556.1.4.2309"
	oidStartTLS  = "1.3.6.1.4.1.1466.20037"
)

var kindOID = map[string]string{"paging": oidPaging, "behera": oidBehera, "vchumust": oidVChuMust, "vchuwarn": oidVChuWarn,
	"manage": oidManage, "msnotif": oidMSNotif, "msshowdel": oidMSShowDel, "msttl": oidMSTTL}

var typedOIDs = map[string]bool{oidPaging: true, oidBehera: true, oidVChuMust: true, oidVChuWarn: true, oidManage: true,
	oidMSNotif: true, oidMSShowDel: true, oidMSTTL: true}

// ReqRec is one request.
type ReqRec struct {
	Op        string // bind search modify add delete extended unbind | unsupported kinds
	MsgID     int64
	DN        string
	Password  string
	Scope     int64
	Deref     int64
	SizeLimit int64
	TimeLimit int64
	TypesOnly bool
	Filter    string
	Attrs     []string
	AddAttrs  []AttrRec
	Changes   []ChangeRec
	ExtName   string
	ExtValue  *string
	Controls  []CtrlRec
	// negative inputs
	BindVersion int64 // 3 unless a negative input
	RawOpTag    int   // for unsupported operations
}

// ---- encoding (client side, RFC 4511) ---------------------------------------

func (c CtrlRec) tlv() *TLV {
	if c.GldapEnc {
		if gc, err := MakeControl(c); err == nil && gc != nil {
			return &TLV{Cls: -1, Val: gc.Encode().Bytes()}
		}
	}
	oid := c.OID
	if o, ok := kindOID[c.Kind]; ok {
		oid = o
	}
	k := []*TLV{tOctet(oid)}
	if c.Crit || c.ExplCrit {
		k = append(k, tBool(c.Crit))
	}
	switch c.Kind {
	case "paging":
		k = append(k, tWrap(tSeq(tInt(int64(c.PageSize)), tOctet(string(c.Cookie)))))
	case "behera":
		var inner *TLV
		switch {
		case c.Grace >= 0:
			inner = tSeq(tCtxCons(0, tCtxPrim(1, encInt(c.Grace))))
		case c.Expire >= 0:
			inner = tSeq(tCtxCons(0, tCtxPrim(0, encInt(c.Expire))))
		case c.ErrCode >= 0:
			inner = tSeq(tCtxPrim(1, encInt(c.ErrCode)))
		}
		if inner != nil {
			k = append(k, tWrap(inner))
		}
	case "vchuwarn":
		k = append(k, tOctet(strconv.FormatInt(c.Expire, 10)))
	case "string":
		if c.HasValue {
			k = append(k, tOctet(c.Value))
		}
	}
	return tSeq(k...)
}

func controlsTLV(cs []CtrlRec) *TLV {
	var k []*TLV
	for _, c := range cs {
		k = append(k, c.tlv())
	}
	return tCtxCons(0, k...)
}

// TLV builds the LDAPMessage for the request.
func (r *ReqRec) TLV() (*TLV, error) {
	var op *TLV
	switch r.Op {
	case "bind":
		op = tApp(0, tInt(r.BindVersion), tOctet(r.DN), tCtxPrim(0, []byte(r.Password)))
	case "search":
		fp, err := ldap.CompileFilter(r.Filter)
		if err != nil {
			return nil, err
		}
		f, err := ParseTLV(fp.Bytes())
		if err != nil {
			return nil, fmt.Errorf("filter re-parse: %w", err)
		}
		var attrs []*TLV
		for _, a := range r.Attrs {
			attrs = append(attrs, tOctet(a))
		}
		op = tApp(3, tOctet(r.DN), tEnum(r.Scope), tEnum(r.Deref), tInt(r.SizeLimit), tInt(r.TimeLimit), tBool(r.TypesOnly), f, tSeq(attrs...))
	case "modify":
		var chs []*TLV
		for _, c := range r.Changes {
			var vals []*TLV
			for _, v := range c.Vals {
				vals = append(vals, tOctet(v))
			}
			chs = append(chs, tSeq(tEnum(c.Op), tSeq(tOctet(c.Type), tSet(vals...))))
		}
		op = tApp(6, tOctet(r.DN), tSeq(chs...))
	case "add":
		var as []*TLV
		for _, a := range r.AddAttrs {
			var vals []*TLV
			for _, v := range a.Vals {
				vals = append(vals, tOctet(v))
			}
			as = append(as, tSeq(tOctet(a.Type), tSet(vals...)))
		}
		op = tApp(8, tOctet(r.DN), tSeq(as...))
	case "delete":
		op = tAppPrim(10, []byte(r.DN))
	case "extended":
		k := []*TLV{tCtxPrim(0, []byte(r.ExtName))}
		if r.ExtValue != nil {
			k = append(k, tCtxPrim(1, []byte(*r.ExtValue)))
		}
		op = tApp(23, k...)
	case "unbind":
		op = tAppPrim(2, nil)
	case "compare":
		op = tApp(14, tOctet(r.DN), tSeq(tOctet("cn"), tOctet("x")))
	case "modifydn":
		op = tApp(12, tOctet(r.DN), tOctet("cn=new"), tBool(true))
	case "abandon":
		op = tAppPrim(16, encInt(1))
	case "unknown-cons":
		op = tApp(r.RawOpTag, tOctet(r.DN))
	case "unknown-prim":
		op = tAppPrim(r.RawOpTag, []byte(r.DN))
	default:
		return nil, fmt.Errorf("unknown op %q", r.Op)
	}
	k := []*TLV{tInt(r.MsgID), op}
	if len(r.Controls) > 0 {
		k = append(k, controlsTLV(r.Controls))
	}
	return tSeq(k...), nil
}

// Supported reports whether gldap is expected to deliver the request.
func (r *ReqRec) Supported() bool {
	switch r.Op {
	case "bind":
		return r.BindVersion == 3
	case "search", "modify", "add", "delete", "extended", "unbind":
		return true
	}
	return false
}

// ---- what the handler saw -----------------------------------------------------

func ctrlOf(c gldap.Control) CtrlRec {
	switch v := c.(type) {
	case *gldap.ControlPaging:
		return CtrlRec{Kind: "paging", OID: oidPaging, PageSize: v.PagingSize, Cookie: v.Cookie}
	case *gldap.ControlBeheraPasswordPolicy:
		e, _ := v.ErrorCode()
		return CtrlRec{Kind: "behera", OID: oidBehera, Expire: int64(v.Expire()), Grace: int64(v.Grace()), ErrCode: int64(e)}
	case *gldap.ControlVChuPasswordMustChange:
		return CtrlRec{Kind: "vchumust", OID: oidVChuMust}
	case *gldap.ControlVChuPasswordWarning:
		return CtrlRec{Kind: "vchuwarn", OID: oidVChuWarn, Expire: v.Expire}
	case *gldap.ControlManageDsaIT:
		return CtrlRec{Kind: "manage", OID: oidManage, Crit: v.Criticality}
	case *gldap.ControlMicrosoftNotification:
		return CtrlRec{Kind: "msnotif", OID: oidMSNotif}
	case *gldap.ControlMicrosoftShowDeleted:
		return CtrlRec{Kind: "msshowdel", OID: oidMSShowDel}
	case *gldap.ControlMicrosoftServerLinkTTL:
		return CtrlRec{Kind: "msttl", OID: oidMSTTL}
	case *gldap.ControlString:
		return CtrlRec{Kind: "string", OID: v.ControlType, Crit: v.Criticality, Value: v.ControlValue, HasValue: v.ControlValue != ""}
	case nil:
		return CtrlRec{Kind: "<nil>"}
	}
	return CtrlRec{Kind: fmt.Sprintf("%T", c), OID: c.GetControlType()}
}

func ctrlsOf(cs []gldap.Control) []CtrlRec {
	var out []CtrlRec
	for _, c := range cs {
		out = append(out, ctrlOf(c))
	}
	return out
}

// ActualOf converts the message a handler was given into a record. kinds
// lists every typed getter that accepted the request (exactly one should).
func ActualOf(r *gldap.Request) (rec *ReqRec, kinds []string) {
	rec = &ReqRec{BindVersion: 3}
	if m, err := r.GetSimpleBindMessage(); err == nil && m != nil {
		kinds = append(kinds, "bind")
		rec.Op, rec.MsgID, rec.DN, rec.Password, rec.Controls = "bind", m.GetID(), m.UserName, string(m.Password), ctrlsOf(m.Controls)
		if m.AuthChoice != gldap.SimpleAuthChoice {
			rec.Op = "bind-nonsimple"
		}
	}
	if m, err := r.GetSearchMessage(); err == nil && m != nil {
		kinds = append(kinds, "search")
		rec.Op, rec.MsgID, rec.DN = "search", m.GetID(), m.BaseDN
		rec.Scope, rec.Deref, rec.SizeLimit, rec.TimeLimit, rec.TypesOnly = int64(m.Scope), int64(m.DerefAliases), m.SizeLimit, m.TimeLimit, m.TypesOnly
		rec.Filter, rec.Attrs, rec.Controls = m.Filter, m.Attributes, ctrlsOf(m.Controls)
	}
	if m, err := r.GetModifyMessage(); err == nil && m != nil {
		kinds = append(kinds, "modify")
		rec.Op, rec.MsgID, rec.DN, rec.Controls = "modify", m.GetID(), m.DN, ctrlsOf(m.Controls)
		for _, c := range m.Changes {
			rec.Changes = append(rec.Changes, ChangeRec{Op: c.Operation, Type: c.Modification.Type, Vals: c.Modification.Vals})
		}
	}
	if m, err := r.GetAddMessage(); err == nil && m != nil {
		kinds = append(kinds, "add")
		rec.Op, rec.MsgID, rec.DN, rec.Controls = "add", m.GetID(), m.DN, ctrlsOf(m.Controls)
		for _, a := range m.Attributes {
			rec.AddAttrs = append(rec.AddAttrs, AttrRec{Type: a.Type, Vals: a.Vals})
		}
	}
	if m, err := r.GetDeleteMessage(); err == nil && m != nil {
		kinds = append(kinds, "delete")
		rec.Op, rec.MsgID, rec.DN, rec.Controls = "delete", m.GetID(), m.DN, ctrlsOf(m.Controls)
	}
	if m, err := r.GetUnbindMessage(); err == nil && m != nil {
		kinds = append(kinds, "unbind")
		rec.Op, rec.MsgID = "unbind", m.GetID()
	}
	if m, ok := gldap.SimMessage(r).(*gldap.ExtendedOperationMessage); ok && m != nil {
		kinds = append(kinds, "extended")
		rec.Op, rec.MsgID, rec.ExtName = "extended", m.GetID(), string(m.Name)
	}
	return rec, kinds
}

// MsgIDOf returns the message ID of a request whatever its kind.
func MsgIDOf(r *gldap.Request) int64 {
	m := gldap.SimMessage(r)
	if m == nil {
		return -1
	}
	return m.GetID()
}

// ---- comparison ---------------------------------------------------------------

func normFilter(f string) string {
	p, err := ldap.CompileFilter(f)
	if err != nil {
		return "!" + f
	}
	s, err := ldap.DecompileFilter(p)
	if err != nil {
		return "!" + f
	}
	return s
}

func eqStrs(a, b []string) bool {
	if len(a) != len(b) {
		return false
	}
	for i := range a {
		if a[i] != b[i] {
			return false
		}
	}
	return true
}

// CtrlDiff compares one control; "" if equal.
func CtrlDiff(want, got CtrlRec) string {
	if want.Kind != got.Kind {
		return fmt.Sprintf("kind %s vs %s(%s)", want.Kind, got.Kind, got.OID)
	}
	switch want.Kind {
	case "paging":
		if want.PageSize != got.PageSize {
			return fmt.Sprintf("paging size %d vs %d", want.PageSize, got.PageSize)
		}
		if !bytes.Equal(want.Cookie, got.Cookie) {
			return fmt.Sprintf("paging cookie %x vs %x", want.Cookie, got.Cookie)
		}
	case "behera":
		if want.Expire != got.Expire || want.Grace != got.Grace || want.ErrCode != got.ErrCode {
			return fmt.Sprintf("behera %v vs %v", want, got)
		}
	case "vchuwarn":
		if want.Expire != got.Expire {
			return fmt.Sprintf("vchu warning %d vs %d", want.Expire, got.Expire)
		}
	case "manage":
		if want.Crit != got.Crit {
			return fmt.Sprintf("manageDsaIT criticality %v vs %v", want.Crit, got.Crit)
		}
	case "string":
		if want.OID != got.OID || want.Crit != got.Crit || want.Value != got.Value {
			return fmt.Sprintf("%v vs %v", want, got)
		}
	}
	return ""
}

// ctrlClass names the shape of a control for violation keys.
func ctrlClass(c CtrlRec) string {
	switch c.Kind {
	case "behera":
		switch {
		case c.Grace >= 0:
			return "behera-grace"
		case c.Expire >= 0:
			return "behera-expire"
		case c.ErrCode >= 0:
			return "behera-error"
		}
		return "behera-empty"
	case "string":
		s := "string"
		if c.Crit {
			s += "-crit"
		}
		if c.HasValue {
			s += "-val"
		}
		return s
	case "paging":
		if len(c.Cookie) == 0 {
			return "paging-nocookie"
		}
		return "paging-cookie"
	}
	return c.Kind
}

// FieldDiff is one difference between expected and actual.
type FieldDiff struct {
	Field  string // short stable name used in violation keys
	Detail string
	Ctrl   bool // a control difference (C14) rather than a message field (C01)
}

// Diff compares the record a handler saw with what the client encoded.
// unwrap is gldap.ConvertString (modify values may arrive BER-wrapped).
func Diff(want, got *ReqRec, unwrap func(...string) ([]string, error)) []FieldDiff {
	var d []FieldDiff
	add := func(f, det string) { d = append(d, FieldDiff{Field: f, Detail: det}) }
	if want.Op != got.Op {
		add("kind", fmt.Sprintf("sent %s, handler got %s", want.Op, got.Op))
		return d
	}
	if want.MsgID != got.MsgID {
		add("msgid", fmt.Sprintf("%d vs %d", want.MsgID, got.MsgID))
	}
	if want.Op != "extended" && want.Op != "unbind" && want.DN != got.DN {
		add(want.Op+"-dn", fmt.Sprintf("%q vs %q", trunc(want.DN), trunc(got.DN)))
	}
	switch want.Op {
	case "bind":
		if want.Password != got.Password {
			add("password", fmt.Sprintf("%q vs %q", trunc(want.Password), trunc(got.Password)))
		}
	case "search":
		if want.Scope != got.Scope {
			add("scope", fmt.Sprintf("%d vs %d", want.Scope, got.Scope))
		}
		if want.Deref != got.Deref {
			add("deref", fmt.Sprintf("%d vs %d", want.Deref, got.Deref))
		}
		if want.SizeLimit != got.SizeLimit {
			add("sizelimit", fmt.Sprintf("%d vs %d", want.SizeLimit, got.SizeLimit))
		}
		if want.TimeLimit != got.TimeLimit {
			add("timelimit", fmt.Sprintf("%d vs %d", want.TimeLimit, got.TimeLimit))
		}
		if want.TypesOnly != got.TypesOnly {
			add("typesonly", fmt.Sprintf("%v vs %v", want.TypesOnly, got.TypesOnly))
		}
		if normFilter(want.Filter) != normFilter(got.Filter) {
			add("filter", fmt.Sprintf("%q vs %q", want.Filter, got.Filter))
		}
		if !eqStrs(want.Attrs, got.Attrs) {
			add("attributes", fmt.Sprintf("%d %q vs %d %q", len(want.Attrs), truncs(want.Attrs), len(got.Attrs), truncs(got.Attrs)))
		}
	case "add":
		if len(want.AddAttrs) != len(got.AddAttrs) {
			add("add-attr-count", fmt.Sprintf("%d vs %d", len(want.AddAttrs), len(got.AddAttrs)))
		} else {
			for i := range want.AddAttrs {
				if want.AddAttrs[i].Type != got.AddAttrs[i].Type {
					add("add-attr-type", fmt.Sprintf("[%d] %q vs %q", i, trunc(want.AddAttrs[i].Type), trunc(got.AddAttrs[i].Type)))
				}
				if !eqStrs(want.AddAttrs[i].Vals, got.AddAttrs[i].Vals) {
					add("add-attr-vals", fmt.Sprintf("[%d] %d %q vs %d %q", i, len(want.AddAttrs[i].Vals), truncs(want.AddAttrs[i].Vals), len(got.AddAttrs[i].Vals), truncs(got.AddAttrs[i].Vals)))
				}
			}
		}
	case "modify":
		if len(want.Changes) != len(got.Changes) {
			add("change-count", fmt.Sprintf("%d vs %d", len(want.Changes), len(got.Changes)))
		} else {
			for i := range want.Changes {
				w, g := want.Changes[i], got.Changes[i]
				if w.Op != g.Op {
					add("change-op", fmt.Sprintf("[%d] %d vs %d", i, w.Op, g.Op))
				}
				if w.Type != g.Type {
					add("change-type", fmt.Sprintf("[%d] %q vs %q", i, trunc(w.Type), trunc(g.Type)))
				}
				if len(w.Vals) != len(g.Vals) {
					k := "n"
					if len(w.Vals) < 2 {
						k = strconv.Itoa(len(w.Vals))
					}
					add("modify-value-count k="+k, fmt.Sprintf("[%d] client sent %d values, handler got %d: %q", i, len(w.Vals), len(g.Vals), truncs(g.Vals)))
					continue
				}
				for j := range w.Vals {
					if g.Vals[j] == w.Vals[j] {
						continue
					}
					ok := false
					if g.Vals[j] != "" {
						func() {
							defer func() { _ = recover() }() // ConvertString's totality is C16's subject
							if u, err := unwrap(g.Vals[j]); err == nil && len(u) == 1 && u[0] == w.Vals[j] {
								ok = true
							}
						}()
					}
					if !ok {
						add("modify-value", fmt.Sprintf("[%d][%d] %q vs %q", i, j, trunc(w.Vals[j]), trunc(g.Vals[j])))
					}
				}
			}
		}
	case "extended":
		if want.ExtName != got.ExtName {
			add("extended-name", fmt.Sprintf("%q vs %q", trunc(want.ExtName), trunc(got.ExtName)))
		}
	}
	if want.Op != "extended" && want.Op != "unbind" {
		if len(want.Controls) != len(got.Controls) {
			d = append(d, FieldDiff{Field: "control-count " + want.Op, Detail: fmt.Sprintf("%d vs %d", len(want.Controls), len(got.Controls)), Ctrl: false})
		} else {
			for i := range want.Controls {
				if s := CtrlDiff(want.Controls[i], got.Controls[i]); s != "" {
					d = append(d, FieldDiff{Field: "control " + ctrlClass(want.Controls[i]), Detail: fmt.Sprintf("[%d] %s", i, s), Ctrl: true})
				}
			}
		}
	}
	return d
}

func trunc(s string) string {
	if len(s) > 40 {
		return s[:40] + fmt.Sprintf("..(%d)", len(s))
	}
	return s
}

func truncs(a []string) []string {
	var o []string
	for i, s := range a {
		if i == 6 {
			o = append(o, "...")
			break
		}
		o = append(o, trunc(s))
	}
	return o
}

// ---- responses (client side parse) ---------------------------------------------

// RespRec is one LDAPMessage received from gldap, parsed strictly.
type RespRec struct {
	MsgID    int64
	Tag      int
	Code     int64
	Matched  string
	Diag     string
	EntryDN  string
	Attrs    []AttrRec
	Controls []CtrlRec
	IsEntry  bool
	Raw      int // frame length
	Bytes    []byte
}

func parseCtrl(t *TLV) (CtrlRec, error) {
	var c CtrlRec
	if !t.is(clsUniversal, true, 16) || len(t.Kids) < 1 || len(t.Kids) > 3 {
		return c, fmt.Errorf("control is %v", t)
	}
	if !t.Kids[0].is(clsUniversal, false, 4) {
		return c, fmt.Errorf("control type is %v", t.Kids[0])
	}
	c.OID = string(t.Kids[0].Val)
	var val *TLV
	rest := t.Kids[1:]
	if len(rest) > 0 && rest[0].is(clsUniversal, false, 1) {
		if len(rest[0].Val) != 1 {
			return c, fmt.Errorf("criticality is %v", rest[0])
		}
		c.Crit = rest[0].Val[0] != 0
		rest = rest[1:]
	}
	if len(rest) > 0 {
		if !rest[0].is(clsUniversal, false, 4) {
			return c, fmt.Errorf("control value is %v", rest[0])
		}
		val = rest[0]
		rest = rest[1:]
	}
	if len(rest) > 0 {
		return c, fmt.Errorf("control has trailing %v", rest[0])
	}
	c.Expire, c.Grace, c.ErrCode = -1, -1, -1
	switch c.OID {
	case oidPaging:
		c.Kind = "paging"
		if val == nil {
			return c, fmt.Errorf("paging control without value")
		}
		in, err := ParseTLV(val.Val)
		if err != nil || !in.is(clsUniversal, true, 16) || len(in.Kids) != 2 || !in.Kids[0].is(clsUniversal, false, 2) || !in.Kids[1].is(clsUniversal, false, 4) {
			return c, fmt.Errorf("paging value %x: %v", val.Val, err)
		}
		n, err := decInt(in.Kids[0].Val)
		if err != nil {
			return c, err
		}
		c.PageSize, c.Cookie = uint32(n), in.Kids[1].Val
	case oidBehera:
		c.Kind = "behera"
		if val != nil {
			in, err := ParseTLV(val.Val)
			if err != nil || !in.is(clsUniversal, true, 16) {
				return c, fmt.Errorf("behera value %x: %v", val.Val, err)
			}
			for _, k := range in.Kids {
				switch {
				case k.is(clsCtx, true, 0) && len(k.Kids) == 1 && k.Kids[0].Cls == clsCtx && !k.Kids[0].Cons:
					n, err := decInt(k.Kids[0].Val)
					if err != nil {
						return c, fmt.Errorf("behera warning: %v", err)
					}
					if k.Kids[0].Tag == 0 {
						c.Expire = n
					} else if k.Kids[0].Tag == 1 {
						c.Grace = n
					} else {
						return c, fmt.Errorf("behera warning choice %d", k.Kids[0].Tag)
					}
				case k.is(clsCtx, false, 1):
					n, err := decInt(k.Val)
					if err != nil {
						return c, fmt.Errorf("behera error: %v", err)
					}
					c.ErrCode = n
				default:
					return c, fmt.Errorf("behera element %v", k)
				}
			}
		}
	case oidVChuMust:
		c.Kind = "vchumust"
	case oidVChuWarn:
		c.Kind = "vchuwarn"
		if val == nil {
			return c, fmt.Errorf("vchu warning without value")
		}
		n, err := strconv.ParseInt(string(val.Val), 10, 64)
		if err != nil {
			return c, err
		}
		c.Expire = n
	case oidManage:
		c.Kind = "manage"
	case oidMSNotif:
		c.Kind = "msnotif"
	case oidMSShowDel:
		c.Kind = "msshowdel"
	case oidMSTTL:
		c.Kind = "msttl"
	default:
		c.Kind = "string"
		if val != nil {
			c.Value, c.HasValue = string(val.Val), true
		}
	}
	return c, nil
}

// ParseResponse parses one LDAPMessage sent by a server, strictly per RFC 4511.
func ParseResponse(frame []byte) (*RespRec, error) {
	t, err := ParseTLV(frame)
	if err != nil {
		return nil, err
	}
	if !t.is(clsUniversal, true, 16) || len(t.Kids) < 2 || len(t.Kids) > 3 {
		return nil, fmt.Errorf("LDAPMessage is %v", t)
	}
	if !t.Kids[0].is(clsUniversal, false, 2) {
		return nil, fmt.Errorf("messageID is %v", t.Kids[0])
	}
	r := &RespRec{Raw: len(frame), Bytes: frame}
	if r.MsgID, err = decInt(t.Kids[0].Val); err != nil {
		return nil, err
	}
	op := t.Kids[1]
	if op.Cls != clsApp || !op.Cons {
		return nil, fmt.Errorf("protocolOp is %v", op)
	}
	r.Tag = op.Tag
	if op.Tag == 4 { // SearchResultEntry
		r.IsEntry = true
		if len(op.Kids) != 2 || !op.Kids[0].is(clsUniversal, false, 4) || !op.Kids[1].is(clsUniversal, true, 16) {
			return nil, fmt.Errorf("SearchResultEntry is %v", op)
		}
		r.EntryDN = string(op.Kids[0].Val)
		for _, a := range op.Kids[1].Kids {
			if !a.is(clsUniversal, true, 16) || len(a.Kids) != 2 || !a.Kids[0].is(clsUniversal, false, 4) || !a.Kids[1].is(clsUniversal, true, 17) {
				return nil, fmt.Errorf("PartialAttribute is %v", a)
			}
			ar := AttrRec{Type: string(a.Kids[0].Val)}
			for _, v := range a.Kids[1].Kids {
				if !v.is(clsUniversal, false, 4) {
					return nil, fmt.Errorf("attribute value is %v", v)
				}
				ar.Vals = append(ar.Vals, string(v.Val))
			}
			r.Attrs = append(r.Attrs, ar)
		}
	} else {
		if len(op.Kids) < 3 || !op.Kids[0].is(clsUniversal, false, 10) || !op.Kids[1].is(clsUniversal, false, 4) || !op.Kids[2].is(clsUniversal, false, 4) {
			return nil, fmt.Errorf("LDAPResult is %v", op)
		}
		if r.Code, err = decInt(op.Kids[0].Val); err != nil {
			return nil, err
		}
		r.Matched, r.Diag = string(op.Kids[1].Val), string(op.Kids[2].Val)
		for _, x := range op.Kids[3:] {
			if x.Cls != clsCtx {
				return nil, fmt.Errorf("LDAPResult trailing element %v", x)
			}
		}
	}
	if len(t.Kids) == 3 {
		cs := t.Kids[2]
		if !cs.is(clsCtx, true, 0) {
			return nil, fmt.Errorf("controls is %v", cs)
		}
		for _, c := range cs.Kids {
			cr, err := parseCtrl(c)
			if err != nil {
				return nil, fmt.Errorf("control: %w", err)
			}
			r.Controls = append(r.Controls, cr)
		}
	}
	return r, nil
}

// GoLdapControls decodes the controls of a received frame with go-ldap's own
// decoder: the independent LDAP client of C14. ok is false if go-ldap could not
// decode them (it panics on some shapes it does not expect; that is go-ldap's
// business, recorded as a probe only).
func GoLdapControls(frame []byte) (recs []CtrlRec, ok bool, why string) {
	defer func() {
		if p := recover(); p != nil {
			recs, ok, why = nil, false, fmt.Sprint("go-ldap panicked: ", p)
		}
	}()
	pkt, err := ber.DecodePacketErr(frame)
	if err != nil || len(pkt.Children) < 3 {
		return nil, false, "no controls element"
	}
	for _, child := range pkt.Children[2].Children {
		c, err := ldap.DecodeControl(child)
		if err != nil {
			return nil, false, "go-ldap DecodeControl: " + err.Error()
		}
		r := CtrlRec{Expire: -1, Grace: -1, ErrCode: -1}
		switch v := c.(type) {
		case *ldap.ControlPaging:
			r.Kind, r.OID, r.PageSize, r.Cookie = "paging", oidPaging, v.PagingSize, v.Cookie
		case *ldap.ControlBeheraPasswordPolicy:
			r.Kind, r.OID, r.Expire, r.Grace, r.ErrCode = "behera", oidBehera, v.Expire, v.Grace, int64(v.Error)
		case *ldap.ControlVChuPasswordMustChange:
			r.Kind, r.OID = "vchumust", oidVChuMust
		case *ldap.ControlVChuPasswordWarning:
			r.Kind, r.OID, r.Expire = "vchuwarn", oidVChuWarn, v.Expire
		case *ldap.ControlManageDsaIT:
			r.Kind, r.OID, r.Crit = "manage", oidManage, v.Criticality
		case *ldap.ControlMicrosoftNotification:
			r.Kind, r.OID = "msnotif", oidMSNotif
		case *ldap.ControlMicrosoftShowDeleted:
			r.Kind, r.OID = "msshowdel", oidMSShowDel
		case *ldap.ControlMicrosoftServerLinkTTL:
			r.Kind, r.OID = "msttl", oidMSTTL
		case *ldap.ControlString:
			r.Kind, r.OID, r.Crit, r.Value, r.HasValue = "string", v.ControlType, v.Criticality, v.ControlValue, v.ControlValue != ""
		default:
			r.Kind, r.OID = fmt.Sprintf("%T", c), c.GetControlType()
		}
		recs = append(recs, r)
	}
	return recs, true, ""
}

// ---- generation ----------------------------------------------------------------

// Gen draws requests from the choice source.
type Gen struct {
	Ch  *Chooser
	Big bool // allow values beyond 64 KiB
	// GldapEncPct: share of request controls encoded by gldap's own Encode
	GldapEncPct int
	used        map[int64]bool
	next        int64
}

func NewGen(ch *Chooser) *Gen { return &Gen{Ch: ch, used: map[int64]bool{}, next: 1} }

// MsgID returns a run-unique message ID; choice 0 gives small sequential ones.
func (g *Gen) MsgID() int64 {
	var id int64
	switch g.Ch.Choose(4) {
	case 0, 1:
		id = g.next
	case 2:
		id = int64(g.Ch.Choose(1 << 16))
	default:
		id = int64(g.Ch.Choose(1<<31 - 1))
		if g.Ch.Choose(8) == 7 {
			id = 1<<31 - 1 - int64(g.Ch.Choose(4))
		}
	}
	for g.used[id] {
		id++
		if id >= 1<<31 {
			id = 1
		}
	}
	g.used[id] = true
	if id >= g.next {
		g.next = id + 1
	}
	if g.next >= 1<<31 {
		g.next = 1
	}
	return id
}

var words = []string{"cn=alice,ou=people,dc=example,dc=org", "dc=example,dc=org", "ou=people", "uid=bob", "mail", "cn", "objectClass", "memberOf", "x", "A", "", "sn;lang-de"}

// Str returns an arbitrary byte string; choice 0 is a short word.
func (g *Gen) Str() string {
	switch g.Ch.Choose(10) {
	case 0, 1, 2, 3:
		return words[g.Ch.Choose(len(words))]
	case 4:
		return ""
	case 5:
		return string(g.Ch.Bytes(1 + g.Ch.Choose(6)))
	case 6:
		return string([]byte{0x04, byte(g.Ch.Choose(4))}) + string(g.Ch.Bytes(g.Ch.Choose(3)))
	case 7:
		return strings.Repeat(string(rune('a'+g.Ch.Choose(26))), 120+g.Ch.Choose(200))
	case 8:
		b := g.Ch.Bytes(3)
		return "é∑" + string(b) + "\x00\xff"
	default:
		if g.Big && g.Ch.Choose(4) == 0 {
			return strings.Repeat("Z", 65536+g.Ch.Choose(5000))
		}
		return strings.Repeat("q", 4090+g.Ch.Choose(20))
	}
}

// Name returns a non-empty attribute-like name.
func (g *Gen) Name() string {
	for i := 0; i < 4; i++ {
		if s := g.Str(); s != "" {
			return s
		}
	}
	return "cn"
}

var filters = []string{"(objectClass=*)", "(cn=alice)", "(&(objectClass=person)(uid=bob))", "(|(cn=a*)(cn=*b)(cn=a*b*c))", "(!(cn=x))",
	"(cn>=a)", "(cn<=z)", "(cn~=al)", "(cn:dn:2.5.13.5:=x)", "(cn=\\2a\\28\\29\\5c)", "(&(|(a=1)(b=2))(!(c=3)))", "(member=cn=alice,ou=people,dc=example,dc=org)", "(:dn:caseExactMatch:=y)", "(CN=Alice)"}

// roundTrips keeps the filters of the quantifier: those the go-ldap compiler
// accepts and that survive compile -> decompile -> compile unchanged.
func roundTrips(f string) bool {
	p, err := ldap.CompileFilter(f)
	if err != nil {
		return false
	}
	// over the wire: what a server decodes is the packet re-read from bytes
	wire, err := ber.DecodePacketErr(p.Bytes())
	if err != nil {
		return false
	}
	d, err := ldap.DecompileFilter(wire)
	if err != nil {
		return false
	}
	p2, err := ldap.CompileFilter(d)
	return err == nil && bytes.Equal(p.Bytes(), p2.Bytes())
}

var goodFilters []string

func init() {
	for _, f := range filters {
		if roundTrips(f) {
			goodFilters = append(goodFilters, f)
		}
	}
}

func (g *Gen) Filter() string {
	if g.Ch.Choose(4) == 3 {
		// composed
		a, b := goodFilters[g.Ch.Choose(len(goodFilters))], goodFilters[g.Ch.Choose(len(goodFilters))]
		if f := []string{"(&", "(|"}[g.Ch.Choose(2)] + a + b + ")"; roundTrips(f) {
			return f
		}
		return a
	}
	return goodFilters[g.Ch.Choose(len(goodFilters))]
}

func (g *Gen) Vals(max int) []string {
	n := g.Ch.Choose(max + 1)
	if g.Ch.Choose(3) == 0 {
		n = 1 // the shape the repository's own tests use
	}
	var v []string
	for i := 0; i < n; i++ {
		v = append(v, g.Str())
	}
	return v
}

// Control draws one control of any kind.
func (g *Gen) Control() CtrlRec {
	c := CtrlRec{Expire: -1, Grace: -1, ErrCode: -1}
	switch g.Ch.Choose(13) {
	case 0:
		c.Kind = "paging"
		switch g.Ch.Choose(4) {
		case 0:
			c.PageSize = uint32(g.Ch.Choose(1000))
		case 1:
			c.PageSize = uint32(1<<32 - 1 - g.Ch.Choose(3))
		case 2:
			c.PageSize = uint32(1<<31 + g.Ch.Choose(100))
		default:
			c.PageSize = uint32(g.Ch.Choose(1 << 30))
		}
		if g.Ch.Choose(2) == 1 {
			c.Cookie = g.Ch.Bytes(1 + g.Ch.Choose(40))
		}
	case 1:
		c.Kind = "behera"
	case 2:
		c.Kind = "behera"
		c.Grace = g.num31()
	case 3:
		c.Kind = "behera"
		c.Expire = g.num31()
	case 4:
		c.Kind = "behera"
		c.ErrCode = int64(g.Ch.Choose(9))
	case 5:
		c.Kind = "vchumust"
	case 6:
		c.Kind = "vchuwarn"
		c.Expire = g.num31()
	case 7:
		c.Kind = "manage"
		c.Crit = g.Ch.Choose(2) == 1
	case 8:
		c.Kind = "msnotif"
	case 9:
		c.Kind = "msshowdel"
	case 10:
		c.Kind = "msttl"
	default:
		c.Kind = "string"
		c.OID = []string{"1.2.3.4", "2.16.840.1.113730.3.4.18", "1.3.6.1.1.13.1", "9.9.9"}[g.Ch.Choose(4)]
		if g.Ch.Choose(4) == 3 {
			c.OID = "1.2." + strconv.Itoa(g.Ch.Choose(100000))
		}
		c.Crit = g.Ch.Choose(2) == 1
		if g.Ch.Choose(2) == 1 {
			c.Value, c.HasValue = g.Name(), true
		}
	}
	if o, ok := kindOID[c.Kind]; ok {
		c.OID = o
	}
	if c.Kind == "string" && !c.Crit && g.Ch.Choose(4) == 3 {
		c.ExplCrit = true // criticality FALSE spelled out: valid BER
	}
	c.GldapEnc = g.GldapEncPct > 0 && g.Ch.Choose(100) < g.GldapEncPct
	if c.GldapEnc {
		c.ExplCrit = false
	}
	return c
}

func (g *Gen) num31() int64 {
	switch g.Ch.Choose(4) {
	case 0:
		return int64(g.Ch.Choose(100))
	case 1:
		return 1<<31 - 1 - int64(g.Ch.Choose(3))
	case 2:
		return int64([]int{127, 128, 255, 256, 32767, 32768, 65535, 65536, 1 << 23, 1<<23 - 1}[g.Ch.Choose(10)])
	}
	return int64(g.Ch.Choose(1<<31 - 1))
}

func (g *Gen) Controls() []CtrlRec {
	n := 0
	switch g.Ch.Choose(5) {
	case 2:
		n = 1
	case 3:
		n = 2
	case 4:
		n = 1 + g.Ch.Choose(5)
	}
	var cs []CtrlRec
	for i := 0; i < n; i++ {
		cs = append(cs, g.Control())
	}
	return cs
}

var supportedOps = []string{"search", "bind", "modify", "add", "delete", "extended"}

// Request draws a well-formed request of the given op ("" = any but unbind).
func (g *Gen) Request(op string) *ReqRec {
	if op == "" {
		op = supportedOps[g.Ch.Choose(len(supportedOps))]
	}
	r := &ReqRec{Op: op, MsgID: g.MsgID(), BindVersion: 3}
	switch op {
	case "bind":
		r.DN, r.Password = g.Str(), g.Str()
		r.Controls = g.Controls()
	case "search":
		r.DN = g.Str()
		r.Scope = int64(g.Ch.Choose(3))
		r.Deref = int64(g.Ch.Choose(4))
		r.SizeLimit, r.TimeLimit = g.num31(), g.num31()
		if g.Ch.Choose(3) == 0 {
			r.SizeLimit, r.TimeLimit = 0, 0
		}
		r.TypesOnly = g.Ch.Choose(2) == 1
		r.Filter = g.Filter()
		n := g.Ch.Choose(5)
		for i := 0; i < n; i++ {
			r.Attrs = append(r.Attrs, g.Str())
		}
		r.Controls = g.Controls()
	case "modify":
		r.DN = g.Str()
		n := g.Ch.Choose(5)
		for i := 0; i < n; i++ {
			r.Changes = append(r.Changes, ChangeRec{Op: int64(g.Ch.Choose(4)), Type: g.Str(), Vals: g.Vals(4)})
		}
		r.Controls = g.Controls()
	case "add":
		r.DN = g.Str()
		n := g.Ch.Choose(5)
		for i := 0; i < n; i++ {
			r.AddAttrs = append(r.AddAttrs, AttrRec{Type: g.Str(), Vals: g.Vals(4)})
		}
		r.Controls = g.Controls()
	case "delete":
		r.DN = g.Str()
		r.Controls = g.Controls()
	case "extended":
		r.ExtName = []string{"1.3.6.1.4.1.4203.1.11.3", "1.3.6.1.4.1.4203.1.11.1", "1.3.6.1.1.8", "1.2.3.4.5", "Unknown", ""}[g.Ch.Choose(6)]
		if g.Ch.Choose(3) == 2 {
			v := g.Str()
			r.ExtValue = &v
		}
	case "unbind":
	}
	return r
}

// Unsupported draws a request gldap does not support.
func (g *Gen) Unsupported() *ReqRec {
	r := &ReqRec{MsgID: g.MsgID(), BindVersion: 3, DN: g.Name()}
	switch g.Ch.Choose(6) {
	case 0:
		r.Op = "compare"
	case 1:
		r.Op = "modifydn"
	case 2:
		r.Op = "abandon"
	case 3:
		r.Op = "unknown-cons"
		r.RawOpTag = []int{1, 5, 7, 9, 11, 13, 15, 19, 24, 25, 30}[g.Ch.Choose(11)]
	case 4:
		r.Op = "unknown-prim"
		r.RawOpTag = []int{17, 18, 20, 21, 22, 26, 27, 28, 29}[g.Ch.Choose(9)]
	default:
		r.Op = "bind"
		r.BindVersion = []int64{2, 0, 1, 4, 127, -1, 255}[g.Ch.Choose(7)]
		r.Password = "pw"
	}
	return r
}

// sortedAttrs returns a copy ordered by type then values, for multiset comparison.
func sortedAttrs(a []AttrRec) []AttrRec {
	o := append([]AttrRec(nil), a...)
	sort.SliceStable(o, func(i, j int) bool {
		if o[i].Type != o[j].Type {
			return o[i].Type < o[j].Type
		}
		return strings.Join(o[i].Vals, "\x00") < strings.Join(o[j].Vals, "\x00")
	})
	return o
}
