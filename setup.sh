#!/bin/bash
# MANIFEST.setup_cmd: build the orchestrator and the instrumenter from files on
# disk, offline, and warm the Go build cache for the go1.26.8 worker builds.
set -e
cd "$(dirname "$0")"
export GOFLAGS=-mod=mod GOPROXY=off GOSUMDB=off GOTOOLCHAIN=local
mkdir -p bin evidence replays
go build -o bin/instrument ./cmd/instrument
go build -o bin/verif ./cmd/verif
# warm caches (plain and -race std + gldap + harness); failures here are not fatal
./bin/verif warm >/dev/null 2>&1 || true
echo "setup ok"
